#!/bin/sh
# offline setup after a fresh restore: build the driver and the repository binaries once so that
# the checks only do incremental rebuilds
set -e
cd "$(dirname "$0")"
export CARGO_NET_OFFLINE=true
mkdir -p .work evidence replay
python3 - <<'PY'
import sys
sys.path.insert(0, 'monitors')
import vlib
print('driver:', vlib.build_driver())
print('bins:', vlib.build_repo_bins())
PY
