#!/bin/sh
# run every check of a tier in turn: ./run_all.sh quick|thorough ; prints one status line per property
tier=${1:-quick}
cd "$(dirname "$0")"
rc=0
for i in 01 02 03 04 05 06 07 08 09 10 11 12 13 14 15 16 17 18 19 20; do
  start=$(date +%s)
  ./check C$i --tier $tier > .work/run-C$i.log 2>&1
  s=$?
  end=$(date +%s)
  echo "C$i exit=$s $((end-start))s $(grep -c '^VIOLATION' .work/run-C$i.log) violations $(grep -c '^KNOWN-FINDING' .work/run-C$i.log) known $(grep -c '^INCONCLUSIVE' .work/run-C$i.log) inconclusive"
  [ $s -ne 0 ] && rc=1
done
exit $rc
