//! svgbob-verif-driver: the only program that links the code under test.
//!
//! modes
//!   serve <out-fd>                 requests on stdin, responses on <out-fd> (never on stdout:
//!                                  the library prints to stdout in places, that noise is measured)
//!   race <threads> <corpus> <out>  fresh-process first-use race, results written to <out>
//!   miri                           tiny fixed workload for the Miri interpreter, prints digests
//!   info                           prints the drawing-character tables and the circle catalogue
use std::cell::RefCell;
use std::fs::File;
use std::io::{BufReader, BufWriter, Read, Write};
use std::os::unix::io::FromRawFd;
use std::panic;
use std::sync::{Arc, Barrier};
use std::time::Instant;

use svgbob::{verif, Settings};

thread_local! {
    static LAST_PANIC: RefCell<String> = RefCell::new(String::new());
}

fn install_panic_hook() {
    panic::set_hook(Box::new(|info| {
        let loc = info
            .location()
            .map(|l| format!("{}:{}", l.file(), l.line()))
            .unwrap_or_else(|| "?".to_string());
        let msg = if let Some(s) = info.payload().downcast_ref::<String>() {
            s.clone()
        } else if let Some(s) = info.payload().downcast_ref::<&str>() {
            s.to_string()
        } else {
            "<non-string payload>".to_string()
        };
        LAST_PANIC.with(|p| *p.borrow_mut() = format!("{} @ {}", msg, loc));
    }));
}

struct Request {
    entry: u32,
    flags: u32,
    settings: Settings,
    ow: f32,
    oh: f32,
    step_budget: u64,
    depth_budget: u32,
    input: String,
}

fn rd_exact(r: &mut impl Read, n: usize) -> Option<Vec<u8>> {
    let mut v = vec![0u8; n];
    r.read_exact(&mut v).ok()?;
    Some(v)
}
fn rd_u32(r: &mut impl Read) -> Option<u32> {
    let b = rd_exact(r, 4)?;
    Some(u32::from_le_bytes([b[0], b[1], b[2], b[3]]))
}
fn rd_u64(r: &mut impl Read) -> Option<u64> {
    let b = rd_exact(r, 8)?;
    let mut a = [0u8; 8];
    a.copy_from_slice(&b);
    Some(u64::from_le_bytes(a))
}
fn rd_f32(r: &mut impl Read) -> Option<f32> {
    rd_u32(r).map(f32::from_bits)
}
fn rd_str(r: &mut impl Read) -> Option<String> {
    let n = rd_u32(r)? as usize;
    let v = rd_exact(r, n)?;
    String::from_utf8(v).ok()
}

fn read_request(r: &mut impl Read) -> Option<Request> {
    let entry = rd_u32(r)?;
    let flags = rd_u32(r)?;
    let scale = rd_f32(r)?;
    let stroke_width = rd_f32(r)?;
    let ow = rd_f32(r)?;
    let oh = rd_f32(r)?;
    let font_size = rd_u64(r)? as usize;
    let step_budget = rd_u64(r)?;
    let depth_budget = rd_u32(r)?;
    let font_family = rd_str(r)?;
    let fill_color = rd_str(r)?;
    let background = rd_str(r)?;
    let stroke_color = rd_str(r)?;
    let input = rd_str(r)?;
    Some(Request {
        entry,
        flags,
        settings: Settings {
            font_size,
            font_family,
            fill_color,
            background,
            stroke_color,
            stroke_width,
            scale,
            include_backdrop: flags & 1 != 0,
            include_styles: flags & 2 != 0,
            include_defs: flags & 4 != 0,
        },
        ow,
        oh,
        step_budget,
        depth_budget,
        input,
    })
}

fn convert(entry: u32, input: &str, st: &Settings, ow: f32, oh: f32) -> String {
    match entry {
        0 => svgbob::to_svg(input),
        1 => svgbob::to_svg_string_pretty(input),
        2 => svgbob::to_svg_string_compressed(input),
        3 => svgbob::to_svg_with_settings(input, st),
        4 => svgbob::to_svg_with_override_size(input, st, ow, oh),
        7 => {
            // the two step public path: the endorsed fragments of the page, then the document built from them
            let cb = svgbob::CellBuffer::from(input);
            let (fragments, _rejects) = cb.get_fragment_spans();
            let node: svgbob::Node<()> =
                svgbob::CellBuffer::fragments_to_node(fragments, String::new(), st, ow, oh);
            let mut buffer = String::new();
            node.render(&mut buffer).expect("must render");
            buffer
        }
        9 => {
            // the two step path with fragments the caller zoomed before handing them back (`ow` = zoom factor,
            // FragmentSpan::scale is public): the scale setting must still multiply every length
            let zoom = if ow > 0.0 { ow } else { 1.0 };
            let cb = svgbob::CellBuffer::from(input);
            let (_, w, h): (svgbob::Node<()>, f32, f32) = cb.get_node_with_size(st);
            let (fragments, _rejects) = cb.get_fragment_spans();
            let zoomed = fragments.into_iter().map(|f| f.scale(zoom)).collect();
            let node: svgbob::Node<()> =
                svgbob::CellBuffer::fragments_to_node(zoomed, String::new(), st, w * zoom, h * zoom);
            let mut buffer = String::new();
            node.render(&mut buffer).expect("must render");
            buffer
        }
        6 => {
            // a CellBuffer that was converted once, then edited through its public map interface so that it
            // holds the cells of another document (input = first "\u{1e}" second), then converted again:
            // the second conversion must be the conversion of the second document
            let (first, second) = input.split_once('\u{1e}').unwrap_or(("", input));
            let mut cb = svgbob::CellBuffer::from(first);
            let (first_node, _, _): (svgbob::Node<()>, f32, f32) = cb.get_node_with_size(st);
            let mut sink = String::new();
            first_node.render(&mut sink).expect("must render");
            let other = svgbob::CellBuffer::from(second);
            cb.clear();
            for (cell, ch) in other.iter() {
                cb.insert(*cell, *ch);
            }
            let (node, _, _): (svgbob::Node<()>, f32, f32) = cb.get_node_with_size(st);
            let mut buffer = String::new();
            node.render(&mut buffer).expect("must render");
            buffer
        }
        8 => {
            // the page assembled through the public StringBuffer API instead of being parsed from text:
            // every character is put at its column and row with add_char, in an order shuffled by the
            // seed `ow`; a quarter of the cells is first written with another character and then overwritten.
            // Used for legend-free documents of single-width characters only.
            let mut cells: Vec<(i32, i32, char)> = vec![];
            for (y, line) in input.lines().enumerate() {
                for (x, ch) in line.chars().enumerate() {
                    if ch != ' ' {
                        cells.push((x as i32, y as i32, ch));
                    }
                }
            }
            let mut state = (ow as u64).wrapping_mul(0x9E37_79B9_7F4A_7C15) | 1;
            let mut next = move || {
                state ^= state << 13;
                state ^= state >> 7;
                state ^= state << 17;
                state
            };
            for i in (1..cells.len()).rev() {
                let j = (next() % (i as u64 + 1)) as usize;
                cells.swap(i, j);
            }
            let mut sb = svgbob::buffer::StringBuffer::new();
            for (x, y, ch) in cells.iter() {
                if next() % 4 == 0 {
                    sb.add_char(*x, *y, '#');
                }
                sb.add_char(*x, *y, *ch);
            }
            let cb = svgbob::CellBuffer::from(sb);
            let (node, _, _): (svgbob::Node<()>, f32, f32) = cb.get_node_with_size(st);
            let mut buffer = String::new();
            node.render(&mut buffer).expect("must render");
            buffer
        }
        _ => {
            // one CellBuffer rendered twice: first with other settings (scale `ow`, switches inverted), then
            // with the requested ones; what the second render returns must not depend on the first
            let cb = svgbob::CellBuffer::from(input);
            let first = Settings {
                scale: if ow > 0.0 { ow } else { 1.0 },
                include_backdrop: !st.include_backdrop,
                include_styles: !st.include_styles,
                include_defs: !st.include_defs,
                ..st.clone()
            };
            let (first_node, _, _): (svgbob::Node<()>, f32, f32) = cb.get_node_with_size(&first);
            let mut sink = String::new();
            first_node.render(&mut sink).expect("must render");
            let (node, _, _): (svgbob::Node<()>, f32, f32) = cb.get_node_with_size(st);
            let mut buffer = String::new();
            node.render(&mut buffer).expect("must render");
            buffer
        }
    }
}

/// bytes the process wrote to fd 1 so far (fd 1 is a regular file when run by the monitors)
fn stdout_pos() -> u64 {
    let f = unsafe { File::from_raw_fd(1) };
    let f = std::mem::ManuallyDrop::new(f);
    let _ = std::io::stdout().flush();
    match f.metadata() {
        Ok(m) if m.is_file() => m.len(),
        _ => 0,
    }
}

fn serve(out_fd: i32) {
    install_panic_hook();
    let stdin = std::io::stdin();
    let mut r = BufReader::new(stdin.lock());
    let out = unsafe { File::from_raw_fd(out_fd) };
    let mut w = BufWriter::new(out);
    loop {
        let op = match rd_u32(&mut r) {
            Some(op) => op,
            None => break,
        };
        match op {
            0 => {
                let req = match read_request(&mut r) {
                    Some(req) => req,
                    None => break,
                };
                let record = req.flags & 8 != 0;
                verif::arm(req.step_budget, req.depth_budget, record);
                let t = Instant::now();
                let res = panic::catch_unwind(|| {
                    convert(req.entry, &req.input, &req.settings, req.ow, req.oh)
                });
                let elapsed = t.elapsed().as_nanos() as u64;
                let rep = verif::take();
                let (status, body) = match res {
                    Ok(s) => (0u8, s),
                    Err(_) => {
                        let msg = LAST_PANIC.with(|p| p.borrow().clone());
                        if msg.starts_with(verif::FUSE) {
                            (2u8, msg)
                        } else {
                            (1u8, msg)
                        }
                    }
                };
                w.write_all(&[status]).unwrap();
                w.write_all(&(body.len() as u32).to_le_bytes()).unwrap();
                w.write_all(body.as_bytes()).unwrap();
                for v in [
                    rep.merge_attempts,
                    rep.merge_passes,
                    rep.enclose_passes,
                    rep.max_depth as u64,
                    rep.prop_buffers,
                    rep.prop_order_hash,
                    rep.prop_cells_max,
                    stdout_pos(),
                    elapsed,
                ] {
                    w.write_all(&v.to_le_bytes()).unwrap();
                }
                w.write_all(&(rep.events.len() as u32).to_le_bytes()).unwrap();
                for e in &rep.events {
                    w.write_all(&(e.len() as u32).to_le_bytes()).unwrap();
                    w.write_all(e.as_bytes()).unwrap();
                }
                w.flush().unwrap();
            }
            1 => {
                // init log
                let log = verif::init_log();
                let text: Vec<String> = log
                    .iter()
                    .map(|(seq, table, who)| format!("{} {} {}", seq, table, who))
                    .collect();
                let text = text.join("\n");
                w.write_all(&(text.len() as u32).to_le_bytes()).unwrap();
                w.write_all(text.as_bytes()).unwrap();
                w.flush().unwrap();
            }
            _ => break,
        }
    }
}

/// (entry point, document, background, fill colour, scale)
fn read_corpus(path: &str) -> Vec<(u32, String, String, String, f32)> {
    let mut f = BufReader::new(File::open(path).expect("corpus"));
    let mut out = vec![];
    while let Some(entry) = rd_u32(&mut f) {
        let s = rd_str(&mut f).expect("corpus string");
        let bg = rd_str(&mut f).expect("corpus string");
        let fill = rd_str(&mut f).expect("corpus string");
        let scale = rd_f32(&mut f).expect("corpus scale");
        out.push((entry, s, bg, fill, scale));
    }
    out
}

/// T threads, released together, each converts the whole corpus in its own order,
/// the very first conversions race for the initialization of the lazy tables
fn race(threads: usize, corpus_path: &str, out_path: &str, reps: usize) {
    install_panic_hook();
    let corpus = Arc::new(read_corpus(corpus_path));
    let barrier = Arc::new(Barrier::new(threads));
    let mut handles = vec![];
    // 8 MiB like a main thread unless the monitor asks for another size (2 MiB is what a spawned thread gets)
    let stack = std::env::var("VERIF_THREAD_STACK")
        .ok()
        .and_then(|v| v.parse::<usize>().ok())
        .unwrap_or(8 << 20);
    for t in 0..threads {
        let corpus = corpus.clone();
        let barrier = barrier.clone();
        let h = std::thread::Builder::new()
            .name(format!("t{}", t))
            .stack_size(stack)
            .spawn(move || {
                let n = corpus.len();
                // a different starting point and stride per thread
                let strides = [1usize, 7, 11, 13, 17, 19, 23, 29];
                let mut stride = strides[t % strides.len()];
                while gcd(stride, n.max(1)) != 1 {
                    stride += 1;
                }
                let start = (t * 37) % n.max(1);
                barrier.wait();
                let mut results: Vec<(usize, u8, String)> = Vec::with_capacity(n);
                let reps = reps.max(1);
                for k in 0..n {
                    let i = (start + k * stride) % n;
                    let (entry, input, bg, fill, scale) = &corpus[i];
                    let st = Settings {
                        background: bg.clone(),
                        fill_color: fill.clone(),
                        scale: *scale,
                        ..Settings::default()
                    };
                    // `reps` conversions of the same key in a row (a just converted input converted again)
                    // only the first result of a key and those that differ from it are kept
                    let mut first: Option<(u8, String)> = None;
                    for _ in 0..reps {
                        let res = panic::catch_unwind(|| convert(*entry, input, &st, 0.0, 0.0));
                        let (status, body) = match res {
                            Ok(s) => (0u8, s),
                            Err(_) => (1u8, LAST_PANIC.with(|p| p.borrow().clone())),
                        };
                        match &first {
                            None => {
                                first = Some((status, body.clone()));
                                results.push((i, status, body));
                            }
                            Some((fs, fb)) => {
                                if *fs != status || *fb != body {
                                    results.push((i, status, body));
                                }
                            }
                        }
                    }
                }
                results
            })
            .expect("spawn");
        handles.push(h);
    }
    let mut w = BufWriter::new(File::create(out_path).expect("out"));
    for (t, h) in handles.into_iter().enumerate() {
        let results = h.join().expect("thread died");
        for (i, status, s) in results {
            w.write_all(&(t as u32).to_le_bytes()).unwrap();
            w.write_all(&(i as u32).to_le_bytes()).unwrap();
            w.write_all(&[status]).unwrap();
            w.write_all(&(s.len() as u32).to_le_bytes()).unwrap();
            w.write_all(s.as_bytes()).unwrap();
        }
    }
    // the init log goes last, marked by thread number u32::MAX
    let log = verif::init_log();
    let text: Vec<String> = log
        .iter()
        .map(|(seq, table, who)| format!("{} {} {}", seq, table, who))
        .collect();
    let text = text.join("\n");
    w.write_all(&u32::MAX.to_le_bytes()).unwrap();
    w.write_all(&0u32.to_le_bytes()).unwrap();
    w.write_all(&[0]).unwrap();
    w.write_all(&(text.len() as u32).to_le_bytes()).unwrap();
    w.write_all(text.as_bytes()).unwrap();
    w.flush().unwrap();
}

fn gcd(a: usize, b: usize) -> usize {
    if b == 0 {
        a
    } else {
        gcd(b, a % b)
    }
}

/// deterministic 64 bit FNV-1a, good enough to print digests from inside Miri
fn fnv(s: &str) -> u64 {
    let mut h: u64 = 0xcbf29ce484222325;
    for b in s.bytes() {
        h ^= b as u64;
        h = h.wrapping_mul(0x100000001b3);
    }
    h
}

const MIRI_INPUTS: [&str; 4] = [
    "+--+\n|a |\n+--+\n",
    " .-.\n(   )\n `-'\n",
    "-->*  \"q<\"\n# Legend:\na = {fill:red}\n",
    "/\\ \u{4e00}x\n\\/ o-\n",
];

/// two threads race on the first use of the tables, then a few sequential conversions
fn miri() {
    let barrier = Arc::new(Barrier::new(2));
    let mut hs = vec![];
    for t in 0..2usize {
        let b = barrier.clone();
        hs.push(std::thread::spawn(move || {
            b.wait();
            let i = t % MIRI_INPUTS.len();
            (svgbob::to_svg(MIRI_INPUTS[i]), svgbob::to_svg(MIRI_INPUTS[1 - i]))
        }));
    }
    let r: Vec<(String, String)> = hs.into_iter().map(|h| h.join().unwrap()).collect();
    assert_eq!(r[0].0, r[1].1, "threads disagree on input 0");
    assert_eq!(r[0].1, r[1].0, "threads disagree on input 1");
    println!("race0 {:016x}", fnv(&r[0].0));
    println!("race1 {:016x}", fnv(&r[0].1));
    for (i, input) in MIRI_INPUTS.iter().enumerate() {
        let a = svgbob::to_svg(input);
        let st = Settings {
            scale: 3.0,
            ..Settings::default()
        };
        let b = svgbob::to_svg_with_settings(input, &st);
        let c = svgbob::to_svg_string_compressed(input);
        println!("seq{} {:016x} {:016x} {:016x}", i, fnv(&a), fnv(&b), fnv(&c));
    }
    for (seq, table, who) in verif::init_log() {
        println!("init {} {} {}", seq, table, who);
    }
}

fn info() {
    let ascii: String = svgbob::map::ASCII_PROPERTIES.keys().collect();
    let uni_prop: String = {
        let mut v: Vec<char> = svgbob::map::UNICODE_PROPERTIES.keys().copied().collect();
        v.sort();
        v.into_iter().collect()
    };
    let uni_frag: String = svgbob::map::UNICODE_FRAGMENTS.keys().collect();
    println!("ASCII {}", ascii);
    println!("UNICODE_PROPERTIES {}", uni_prop);
    println!("UNICODE_FRAGMENTS {}", uni_frag);
    println!("CIRCLES {}", svgbob::map::CIRCLES_SPAN.len());
    for (circle, span) in svgbob::map::CIRCLES_SPAN.iter() {
        println!(
            "#CIRCLE r={} c=({},{})",
            circle.radius, circle.center.x, circle.center.y
        );
        println!("{}", span);
    }
}

fn main() {
    let args: Vec<String> = std::env::args().collect();
    match args.get(1).map(|s| s.as_str()) {
        Some("serve") => serve(args[2].parse().expect("fd")),
        Some("race") => race(
            args[2].parse().expect("threads"),
            &args[3],
            &args[4],
            args.get(5).map(|r| r.parse().expect("reps")).unwrap_or(1),
        ),
        Some("miri") => miri(),
        Some("info") => info(),
        _ => {
            eprintln!("usage: driver serve <fd> | race <threads> <corpus> <out> | miri | info");
            std::process::exit(2);
        }
    }
}
