#!/usr/bin/env python3
"""validate MANIFEST.json and the evidence files against the schemas (needs the tooling venv: python3-vt)"""
import glob, json, sys
import jsonschema
ok = True
try:
    jsonschema.validate(json.load(open('/verif/MANIFEST.json')), json.load(open('/root/.vp/MANIFEST.schema.json')))
    print('MANIFEST ok')
except Exception as e:
    ok = False
    print('MANIFEST INVALID', str(e)[:500])
sch = json.load(open('/root/.vp/EVIDENCE.schema.json'))
for f in sorted(glob.glob('/verif/evidence/*.json')):
    try:
        jsonschema.validate(json.load(open(f)), sch)
        print(f, 'ok')
    except Exception as e:
        ok = False
        print(f, 'INVALID', str(e)[:300])
sys.exit(0 if ok else 1)
