"""C02 - the output is always one well-formed SVG/XML document that round-trips the text.

Oracle: (1) expat (namespace aware) accepts the returned string as one document; (2) the root is
svg in the SVG namespace with finite decimal width and height; (3) round trip: for documents whose
text content is known by construction - a label run between two letters on its own row, a quoted
string, a legend declaration - reading back the text / style elements yields the input characters,
minus those XML cannot represent.
"""
import sys

import gen
from vlib import F, Malformed, Scene, build_driver, driver_info, key_of, main, rng_for, xml_tree

ID = 'C02'
LEVEL = 'exploration'
RULE = ('one test character (every scalar of the BMP in the thorough tier) or a random string of 1..40 scalars mixed with '
        'markup fragments, in each channel (plain cells, quoted string, legend declaration; class tag and legend name: well-formedness only) x entry point (pretty, compressed, '
        'settings with the 8 include_* sets); non-trivial = distinct document carrying a markup-significant, non-ASCII or '
        'XML-illegal character')
ASSUMPTIONS = ['expat is a conforming XML 1.0 parser',
               'a CR inside text may be read back as LF (XML line end normalisation); the property does not ask for &#13;']
FLOORS = {'quick': {'distinct_nontrivial': 2000, 'channel_plain': 300, 'channel_quoted': 300, 'channel_legend': 300},
          'thorough': {'distinct_nontrivial': 100000, 'channel_plain': 20000, 'channel_quoted': 20000, 'channel_legend': 20000}}

RUST_WS = set(map(chr, list(range(9, 14)) + [0x20, 0x85, 0xa0, 0x1680] + list(range(0x2000, 0x200b)) + [0x2028, 0x2029, 0x202f, 0x205f, 0x3000]))
MARKUP = ['<', '>', '&', "'", '"', ']]>', '<!--', '-->', '<?', '?>', '&#', '&lt;', '&amp;', '<![CDATA[', '</text>', '</style>', '<a>', '&#x0;', '%', ';']


def xml_illegal(c):
    o = ord(c)
    return o < 0x20 and c not in '\t\n\r' or o in (0xfffe, 0xffff)


def representable(s):
    return ''.join(c for c in s if not xml_illegal(c))


def nl_norm(s):
    return s.replace('\r\n', '\n').replace('\r', '\n')


def significant(s):
    return any(c in '<>&\'"' or ord(c) > 0x7e or ord(c) < 0x20 for c in s)


def check_case(ctx, case):
    ch = case['channel']
    payload = case['payload']
    if ch == 'plain':
        doc = 'a' + payload + 'b\n'
    elif ch == 'quoted':
        doc = 'x "' + payload + '" y\n'
    elif ch == 'legend':
        doc = '+-+\n# Legend:\na = {' + payload + '}\n'
        if case.get('dup'):
            doc = '+-+\n# Legend:\na = {fill:red}\na = {' + payload + '}\n'
    elif ch == 'glyph':
        # a character WITH a drawing meaning inside a word: it may be drawn or shown, but what is shown as text
        # must be the literal input characters
        doc = 'don' + payload + 't wo' + payload + payload + 'rd\n'
    elif ch == 'tag':
        # a class tag inside a box: whatever part of it becomes a class name must still be representable
        doc = '+' + '-' * 12 + '+\n| {a' + payload + '} b  |\n+' + '-' * 12 + '+\n'
    elif ch == 'legname':
        doc = '+-+\n# Legend:\na' + payload + ' = {fill:red}\n'
    elif ch == 'soup':
        doc = payload
    elif ch == 'setting':
        # the payload as the colour / font settings, under every combination of the include switches: the settings are
        # written into the document as well (today: into the style sheet), it has to stay a document
        doc = '+-+\nab "c"\n'
    else:
        raise ValueError(ch)
    kw = dict(case.get('kw', {}))
    if ch == 'setting':
        kw.update(case['settings'])
    r = ctx.conv(doc, **kw)
    ctx.note(key_of(doc, sorted(kw.items())), significant(payload), 'channel_' + ch,
             'illegal_char_documents' if any(xml_illegal(c) for c in payload) else 'legal_only_documents')
    if not r.ok:
        return 'conversion failed: ' + r.fail_text()
    try:
        sc = Scene(r.out)
    except Malformed as e:
        return 'not a well-formed svg document: %s' % e
    if sc.W <= 0 or sc.H <= 0:
        return 'canvas not positive: %s x %s' % (sc.W, sc.H)
    texts = sorted((e[3], e[2], e[4]) for e, _ in sc.flat() if e[0] == 'text')
    if ch == 'plain':
        got = nl_norm(''.join(t[2] for t in texts))
        want = nl_norm('a' + representable(''.join(c for c in payload if c not in RUST_WS and c != '\0')) + 'b')
        if got != want:
            return 'text read back %r, the input characters are %r' % (got, want)
    elif ch == 'glyph':
        row = doc.rstrip('\n')
        for t in texts:
            if t[2] not in row:
                return 'text element %r is not made of literal input characters of the row %r' % (t[2], row)
    elif ch == 'quoted':
        got = [nl_norm(t[2]) for t in texts]
        q = nl_norm(representable(payload.replace('\0', '')))
        want = ['x', q, 'y']
        if got != want and not (q == '' and got == ['x', 'y']):
            return 'texts read back %r, expected %r' % (got, want)
    elif ch == 'legend':
        flags = kw.get('flags', 7) if kw.get('entry', 3) >= 3 else 7
        if flags & 2:
            if len(sc.style) != 1:
                return 'style elements: %d' % len(sc.style)
            css = nl_norm(sc.style[0].text)
            # the rules close the style sheet, in order; white space between and after the rules is svgbob's business
            want = nl_norm('.svgbob .a{ ' + representable(payload) + ' }')
            body = css.rstrip()
            ok = body.endswith(want) and body[:-len(want)][-1:].isspace()
            if ok and case.get('dup'):
                head = body[:-len(want)].rstrip()
                ok = head.endswith('.svgbob .a{ fill:red }') and head[:-len('.svgbob .a{ fill:red }')][-1:].isspace()
                want = '.svgbob .a{ fill:red } ' + want
            if not ok:
                return 'legend css read back %r, expected %r' % (css[-len(want) - 20:], want)
    return None


def kw_of(i):
    e = [1, 2, 3][i % 3]
    kw = {'entry': e}
    if e == 3:
        kw['flags'] = (i // 3) % 8
    return kw


def single_char_cases(c, i):
    out = []
    o = ord(c)
    if c not in '"\\\n' and not (c == '\r'):
        out.append({'channel': 'quoted', 'payload': c, 'kw': kw_of(i)})
    if c not in '{}':
        out.append({'channel': 'legend', 'payload': 'x:' + c + 'y', 'kw': kw_of(i + 1), 'dup': i % 4 == 0})
    if c not in '\n\r' and (o > 0x7e or o < 0x20 or i % 8 == 0):
        out.append({'channel': 'tag', 'payload': c, 'kw': kw_of(i + 3)})
        out.append({'channel': 'legname', 'payload': c, 'kw': {'entry': 3, 'flags': 7}})
    return out


def run_shard(ctx, shard):
    info = ctx.extra['info']
    drawing = set(info['ascii']) | set(info['unicode_properties']) | set(info['unicode_fragments']) | set('"\n')
    if shard['kind'] == 'range':
        for o in range(shard['lo'], shard['hi']):
            if 0xd800 <= o <= 0xdfff:
                continue
            c = chr(o)
            cases = []
            for rep in range(shard.get('reps', 1)):
                cases += single_char_cases(c, o + 7 * rep)
                if c not in drawing and c != '\r':
                    cases.append({'channel': 'plain', 'payload': c, 'kw': kw_of(o + 2 + 7 * rep)})
            for k in cases:
                ctx.run_case(k)
            if o == shard['lo']:
                ctx.sample(cases[0] if cases else {'skipped': o})
        return
    rng = rng_for(ctx.seed, ID, shard['name'])
    if shard['name'] == 'rand-0':
        for c in sorted(drawing - set('"\n')):
            for k in range(3):
                ctx.run_case({'channel': 'glyph', 'payload': c, 'kw': kw_of(k)})
    plain_ok = [c for c in map(chr, range(0x21, 0x7f)) if c not in drawing]
    for i in range(shard['n']):
        def rch():
            q = rng.random()
            if q < 0.25:
                return rng.choice(MARKUP)
            if q < 0.45:
                return chr(rng.randint(0, 0x7f))
            if q < 0.6:
                return rng.choice('\ufffe\uffff\x85\u2028\u2029\u200b\u0301\ufeff\U0001f600\U0010ffff\u65e5\xe9\x00\x01\x1f')
            while True:
                c = rng.randint(0x80, 0x10ffff)
                if not (0xd800 <= c <= 0xdfff):
                    return chr(c)
        n = rng.randint(1, 40) if rng.random() < 0.3 else rng.randint(1, 8)
        s = ''.join(rch() for _ in range(n))
        ch = rng.choice(['plain', 'quoted', 'legend', 'soup', 'tag', 'legname', 'setting'])
        if ch == 'quoted':
            s = s.replace('"', '').replace('\\', '').replace('\n', '').replace('\r', '') or '<'
        elif ch == 'legend':
            s = s.replace('{', '').replace('}', '') or '&'
        elif ch in ('tag', 'legname'):
            s = ''.join(c for c in s if c not in '\r\n')[:8] or 'é'
        elif ch == 'plain':
            s = ''.join(c for c in s if c not in drawing and c not in '\r\n') or '&'
        else:
            # anything, several rows, drawing characters mixed in
            s = s + rng.choice(['', '\n', '\n+--+\n', '\n# Legend:\na = {' + s.replace('{', '').replace('}', '') + '}\n'])
        case = {'channel': ch, 'payload': s, 'kw': kw_of(rng.randrange(24))}
        if ch == 'setting':
            case['kw'] = {'entry': rng.choice([3, 4]), 'flags': rng.randrange(8), 'ow': 50.0, 'oh': 20.0}
            case['settings'] = {f: s for f in ('ff', 'fill', 'bg', 'sc') if rng.random() < 0.6} or {'bg': s}
        if ch == 'legend' and rng.random() < 0.3:
            case['dup'] = True
        ctx.run_case(case)
        if i == 0:
            ctx.sample(case)


def execute(run):
    binary = build_driver()
    info = driver_info(binary)
    extra = {'info': info}
    shards = []
    if run.tier == 'quick':
        for a in range(0, 0x10000, 0x400):
            shards.append({'kind': 'range', 'name': 'range-%x' % a, 'lo': a, 'hi': a + 0x400, 'reps': 1})
        for a in [0x10000, 0x1f300, 0x1f600, 0x20000, 0x2fa00, 0xe0000, 0xf0000, 0x10fc00]:
            shards.append({'kind': 'range', 'name': 'range-%x' % a, 'lo': a, 'hi': a + 0x400, 'reps': 1})
        shards += [{'kind': 'rand', 'name': 'rand-%d' % i, 'n': 3000} for i in range(16)]
        run.extra_cov['exhaustive_scopes'] = ['every scalar U+0000..U+FFFF as the single test character in each channel, one entry point/switch set each']
    else:
        for a in range(0, 0x110000, 0x1000):
            shards.append({'kind': 'range', 'name': 'range-%x' % a, 'lo': a, 'hi': a + 0x1000, 'reps': 4 if a < 0x10000 else 1})
        shards += [{'kind': 'rand', 'name': 'rand-%d' % i, 'n': 25000} for i in range(32)]
        run.extra_cov['exhaustive_scopes'] = ['every Unicode scalar value U+0000..U+10FFFF as the single test character in each channel '
                                              '(BMP: 4 entry point/switch sets each)']
    run.run_shards(binary, shards, extra=extra)


if __name__ == '__main__':
    sys.exit(main(sys.modules[__name__]))
