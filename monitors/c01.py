"""C01 - conversion is total: any text yields an SVG, never a panic, an abort or a hang.

Events that refute: a panic payload, the death of the driver process (signal / abort / stack
overflow), a conversion that does not return, or hook counters above the polynomial envelope
(merge attempts, recursion depth) - the envelope is armed as a fuse inside the library hooks so
that a diverging merge ends deterministically.
Thorough tier adds: the same corpus on a build with debug assertions and overflow checks, under
AddressSanitizer, and the tiny first-use workload under Miri.
"""
import os
import subprocess
import sys
import time

import gen
from vlib import (BuildError, HARNESS, TARGET, VERIF, WORK, OFFLINE_ENV, _run_build, build_driver, key_of, log, main, rng_for)

ID = 'C01'
LEVEL = 'exploration'
HANG_IS_VIOLATION = True
RULE = ('hostile inputs of 9 families (dense random grids, mutated bundled diagrams, crossovers of two diagrams, arbitrary unicode scalars, multi-byte drawings with mixed line endings and legend headers, deep nesting, '
        'quote/brace/legend grammar soup, structural stress for the recursive merges, a size ladder) x the five entry '
        'points x include_* switches x extreme finite scales and override sizes; non-trivial = distinct (input, entry, '
        'settings) whose output contains at least one drawing element')
ASSUMPTIONS = ['polynomial time is checked as an envelope on hook step counts for the sizes run (merge attempts <= 64(n+4)^3, '
               'recursion depth <= 4(n+4), n = non-blank characters), not as an asymptotic statement',
               'a driver death counts only when it reproduces on a fresh driver with the single input']
FLOORS = {'quick': {'distinct_nontrivial': 10000, 'evaluations': 30000},
          'thorough': {'distinct_nontrivial': 200000, 'evaluations': 500000}}

SCALES = [1e-45, 1e-20, 0.5, 8.0, 1e20, 3.4028234e38]
HOSTILE_CHARS = ['\u200b', '\u200d', '\u0301', '\u202e', '\u202d', '\u2066', '\ufeff', '\ufffe', '\uffff', '\u2028', '\u2029',
                 '\x00', '\x01', '\x07', '\x0b', '\x0c', '\x1b', '\x7f', '\x85', '\xa0', '\u3000', '\U0001f600', '\U0010ffff',
                 '\U000e0001', '\ue000', '\t', '\r', '\uffa0', '\u115f', '\uff0d', '\uff5c', '\u4e00', '\uac00', '\u0300a']


def envelope(n):
    """(merge attempts, recursion depth) allowed for n non-blank characters.
    A character yields up to ~16 fragments, every recursion level strictly shrinks its list and a pass
    over k items makes at most k^2 attempts, so attempts are O(n^3) and depth O(n) by construction; the
    constants are > 15x the largest ratios observed on the unchanged tree (see evidence maxima)."""
    return min(64 * (n + 4) ** 3, 2 ** 63), min(4 * (n + 4), 50000)


def settings_for(rng):
    kw = {'entry': rng.randrange(5), 'flags': rng.randrange(8)}
    if rng.random() < 0.5:
        kw['scale'] = rng.choice(SCALES) if rng.random() < 0.5 else 10 ** rng.uniform(-30, 30)
    if kw['entry'] == 4:
        kw['ow'] = rng.choice([0.0, 1e-45, 1.0, 123.5, 1e30, 3.4028234e38])
        kw['oh'] = rng.choice([0.0, 1e-45, 1.0, 77.25, 1e30])
    if rng.random() < 0.2:
        kw['sw'] = rng.choice([0.0, 1e-45, 2.0, 1e30])
        kw['fs'] = rng.choice([0, 1, 14, 2 ** 40])
        kw['ff'] = rng.choice(['', 'x', '"<&', 'a' * 200])
    if rng.random() < 0.15:
        # any text in the string fields of Settings (a lone quote, unbalanced quotes, separators, markup, multi-byte)
        toks = ['"', "'", ',', ' ', ';', '{', '}', '<', '>', '&', '\\', '/*', 'serif', 'Courier New', '\u00e9', '\u65e5', '\0', '\n', '(', ')', '#', '-', '0', 'url(']
        for f in ('ff', 'fill', 'bg', 'sc'):
            if rng.random() < 0.7:
                kw[f] = ''.join(rng.choice(toks) for _ in range(rng.choice([0, 1, 1, 2, 3, 5, 9])))
    return kw


def check_case(ctx, case):
    inp = case['input']
    kw = dict(case.get('kw', {}))
    n = sum(1 for c in inp if not c.isspace())
    sb, db = envelope(n)
    if case.get('cold'):
        # the very first conversion of a fresh process: the lazily built tables are built inside this call
        ctx.driver().restart()
        ctx.tag('first_conversions_of_a_process')
    else:
        ctx.warm()
    r = ctx.conv(inp, step_budget=sb, depth_budget=db, watchdog=case.get('watchdog', 120.0), **kw)
    drawn = r.ok and any(t in r.out for t in ('<line', '<text', '<path', '<rect class="s', '<rect class="b', '<circle', '<polygon', '<g>'))
    ctx.note(key_of(inp, sorted(kw.items())), drawn, 'family_' + case.get('family', '?'), 'entry_%d' % kw.get('entry', 3))
    ctx.maxi('merge_attempts', r.merge_attempts)
    ctx.maxi('recursion_depth', r.max_depth)
    ctx.maxi('elapsed_ms', r.elapsed_ns // 1000000)
    if n >= 8:
        # how far below the envelope real work stays
        ctx.maxi('attempts_per_n2', round(r.merge_attempts / (n * n), 3))
        ctx.maxi('attempts_per_n3', round(r.merge_attempts / (n * n * n), 4))
        ctx.maxi('depth_per_n', round(r.max_depth / n, 3))
    if r.status == 1:
        return 'panic: %s' % r.out[:400]
    if r.status == 2:
        return 'step/depth envelope exceeded (n=%d non-blank characters, budget %d attempts / depth %d): %s' % (n, sb, db, r.out[:200])
    if not r.out.lstrip().startswith('<svg'):
        return 'returned string is not an svg document: %r' % r.out[:80]
    return None


# ---------------------------------------------------------------------------------------------
# families

def fam_dense(rng):
    alpha = gen.ASCII_DRAW + gen.UNI_DRAW + gen.UNI_MORE + 'ab"{}\t日é'
    sub = rng.choice([alpha, gen.ASCII_DRAW, gen.ASCII_DRAW + 'a"', "-|+.'`,/\\", "()_-.'`,/\\|", gen.UNI_DRAW + gen.UNI_MORE])
    rows = gen.random_grid(rng, sub, wmax=rng.choice([8, 16, 40]), hmax=rng.choice([4, 8, 16]),
                           dens=rng.choice([0.1, 0.2, 0.3, 0.4, 0.5, 0.6, 0.7, 0.85, 1.0]))
    return gen.text_of(rows)


_BUNDLED = None


def fam_mutated(rng, circles):
    global _BUNDLED
    if _BUNDLED is None:
        _BUNDLED = gen.bundled(strip_legend=False)
    if rng.random() < 0.4 and circles:
        rows = list(rng.choice(circles))
    else:
        name, rows = rng.choice(_BUNDLED)
        rows = gen.blocks_of(rows, rng, h=rng.choice([6, 12, 24]), w=rng.choice([30, 60, 100]))
    rows = [list(r) for r in rows] or [[' ']]
    alpha = gen.ASCII_DRAW + gen.UNI_DRAW + ' ab"{}'
    for _ in range(rng.choice([1, 1, 2, 3, 6, 12])):
        y = rng.randrange(len(rows))
        op = rng.randrange(7)
        row = rows[y]
        if op == 0 and row:
            row[rng.randrange(len(row))] = rng.choice(alpha)
        elif op == 1 and row:
            del row[rng.randrange(len(row))]
        elif op == 2:
            row.insert(rng.randrange(len(row) + 1), rng.choice(alpha))
        elif op == 3 and len(row) > 1:
            i = rng.randrange(len(row) - 1)
            row[i], row[i + 1] = row[i + 1], row[i]
        elif op == 4:
            rows.insert(y, list(row))
        elif op == 5:
            rows[y] = [' '] * rng.randint(1, 3) + row
        else:
            rows[y] = row[rng.randint(0, 2):]
    return '\n'.join(''.join(r) for r in rows) + rng.choice(['\n', '', '\r\n'])


def fam_crossover(rng, circles):
    """rows of two bundled diagrams / circles spliced together, shifted against each other"""
    global _BUNDLED
    if _BUNDLED is None:
        _BUNDLED = gen.bundled(strip_legend=False)
    def pick():
        if rng.random() < 0.3 and circles:
            return list(rng.choice(circles))
        name, rows = rng.choice(_BUNDLED)
        return gen.blocks_of(rows, rng, h=rng.choice([4, 8, 16]), w=rng.choice([20, 40, 80]))
    a, b = pick(), pick()
    out = []
    for i in range(max(len(a), len(b))):
        ra = a[i] if i < len(a) else ''
        rb = b[i] if i < len(b) else ''
        k = rng.randrange(5)
        if k == 0:
            out.append(ra + rb)
        elif k == 1:
            out.append(ra[:rng.randint(0, len(ra))] + rb[rng.randint(0, len(rb)):])
        elif k == 2:
            out.append(''.join(x if x != ' ' else y for x, y in zip(ra.ljust(len(rb)), rb.ljust(len(ra)))))
        elif k == 3:
            out.append(rb + ' ' * rng.randint(0, 2) + ra[::-1])
        else:
            out.append(ra)
    return '\n'.join(out) + '\n'


def any_scalar(rng):
    while True:
        plane = rng.choice([0, 0, 0, 1, 2, 3, 14, 15, 16])
        c = plane * 0x10000 + rng.randrange(0x10000)
        if not (0xd800 <= c <= 0xdfff) and c <= 0x10ffff:
            return chr(c)


def fam_unicode(rng):
    n = rng.randint(1, 60)
    out = []
    for _ in range(n):
        q = rng.random()
        if q < 0.3:
            out.append(rng.choice(HOSTILE_CHARS))
        elif q < 0.55:
            out.append(any_scalar(rng))
        elif q < 0.8:
            out.append(rng.choice(gen.ASCII_DRAW + ' "'))
        elif q < 0.9:
            out.append(rng.choice(['\n', '\r\n', '\r', '\n\r']))
        else:
            out.append(rng.choice(gen.UNI_DRAW))
    return ''.join(out)


GRAMMAR = ['"', '\\"', '\\', '{', '}', '{a}', '{a,}', '{,}', '{a,b}', '{ a }', '{{', '}}', '# Legend:', '# Legend:\n', '#Legend:',
           ' # Legend: \n', 'a = {fill:red}', 'a={', 'a = }', '= {x}', 'a = {x}{y}', 'a = {x}\n', '_ = {}', '\n', '\r\n', ' ', '\t',
           '+--+', '|', '-', "'", '.', 'é = {x}', 'a1 = {"}', '"# Legend:"', '{"}', '"{', '}"', 'Ł = {x}', 'a = {\n}', '\x00']


def fam_grammar(rng):
    return ''.join(rng.choice(GRAMMAR) for _ in range(rng.randint(1, 25)))


def fam_connected(rng, cells):
    """ONE group of about `cells` connected characters (what matters to anything that walks a group cell by cell)"""
    k = rng.randrange(5)
    if k in (1, 3):
        # text pages and rung columns cost about n^2 on the pinned tree (160 s for 130 000 cells): they stay at sizes that
        # finish well inside the watchdog, the near-linear kinds carry the big sizes
        cells = min(cells, 30000)
    if k == 0:      # a fully ruled table
        cw_ = rng.randint(1, 3)
        cols = rng.randint(20, 120)
        per_row = cols * (cw_ + 1) + 1 + cols + 1
        nrows = max(2, cells // per_row)
        top = '+' + ('-' * cw_ + '+') * cols
        mid = '|' + (' ' * cw_ + '|') * cols
        return '\n'.join([top] + [mid, top] * nrows) + '\n'
    if k == 1:      # a page of text without blank lines
        width = rng.randint(60, 200)
        words = ['lorem', 'ipsum', 'sit', 'amet', 'k9', 'Zq', 'a']
        rows = []
        n = 0
        while n < cells:
            row = ''
            while len(row) < width:
                row += rng.choice(words) + ' '
            rows.append(row.rstrip())
            n += sum(1 for c in row if c != ' ')
        return '\n'.join(rows) + '\n'
    if k == 2:      # one long row (a row of `+` costs about n^2: 17 s for 30 000 on the pinned tree, it stays at that size)
        ch = rng.choice('-=~_ab+')
        return ch * (min(cells, 30000) if ch == '+' else cells) + '\n'
    if k == 3:      # one long column with rungs
        return '\n'.join(rng.choice(['|', '|', '+-', '|-']) for _ in range(min(cells, 10000))) + '\n'
    side = int(cells ** 0.5) + 1   # a filled block (not of `#`: 137 s for 30 000 cells on the pinned tree, quadratic)
    ch = rng.choice('+xa')
    return '\n'.join(ch * side for _ in range(side)) + '\n'


def fam_stress(rng, big):
    k = rng.randrange(13)
    n = rng.choice([50, 200, 1000, 5000, 20000] if big else [20, 60, 150, 400])
    if k == 0:
        ch = rng.choice('-_=~|:/\\─│*oO.+x')
        return ch * n + '\n'
    if k == 1:
        ch = rng.choice('|:!│+')
        return '\n'.join([ch] * min(n, 3000)) + '\n'
    if k == 2:  # staircase
        m = min(n, 300)
        return '\n'.join(' ' * (2 * i) + '+-+' for i in range(m)) + '\n'
    if k == 3:  # comb
        m = min(n, 400)
        return '+' + '-+' * m + '\n' + '|' + ' |' * m + '\n'
    if k == 4:  # nested boxes
        depth = min(n // 10 + 1, 40)
        rows = ['']
        w = 2
        rows = ['+' + '-' * w + '+', '|' + ' ' * w + '|', '+' + '-' * w + '+']
        for d in range(depth):
            w = len(rows[0]) + 2
            rows = ['+' + '-' * w + '+'] + ['| ' + r + ' |' for r in rows] + ['+' + '-' * w + '+']
        return '\n'.join(rows) + '\n'
    if k == 5:  # checkerboard of isolated characters
        m = min(int(n ** 0.5) + 2, 60)
        ch = rng.choice('+x*o#a')
        return '\n'.join(''.join(ch if (x + y) % 2 == 0 else ' ' for x in range(m)) for y in range(m)) + '\n'
    if k == 6:  # diagonal of long length
        m = min(n, 500)
        return '\n'.join(gen.diag(rng.choice('/\\'), m, rng.choice('/\\'))) + '\n'
    if k == 7:  # many separate small spans
        m = min(n, 2000)
        return '\n'.join(' '.join(rng.choice(['+', '-', 'a', '()', '->', '*-']) for _ in range(30)) for _ in range(m // 30 + 1)) + '\n'
    if k == 8:  # grid of crosses: every pass merges few
        m = min(int(n ** 0.5) + 2, 50)
        return '\n'.join('+'.join(['-'] * m) if y % 2 == 0 else ' '.join(['|'] * m) for y in range(m)) + '\n'
    if k == 9:  # spiral-ish nested corners
        m = min(n // 4 + 2, 60)
        rows = []
        for i in range(m):
            rows.append(' ' * i + '.' + '-' * (2 * (m - i)) + '.')
        for i in reversed(range(m)):
            rows.append(' ' * i + "'" + '-' * (2 * (m - i)) + "'")
        return '\n'.join(rows) + '\n'
    if k == 10:  # long quoted strings and many quotes
        return ('"' + 'q' * min(n, 5000) + '" ') * 3 + '"' * (n % 7) + '\n'
    if k == 11:
        # long legend
        m = min(n, 2000)
        return '+-+\n' + '# Legend:\n' + '\n'.join('a%d = {fill:red}' % i for i in range(m)) + '\n'
    # deep nesting of every bracket-like character of the grammars (recursive descent must not recurse per char)
    m = n * 10 if big else n
    o, c = rng.choice([('{', '}'), ('"', '"'), ('(', ')'), ('\\"', ''), ('{a,', '}'), ('[', ']')])
    body = o * m + 'x' + (c * m if rng.random() < 0.5 else '')
    where = rng.randrange(4)
    if where == 0:
        return '+-+\n# Legend:\na = ' + body + '\n'
    if where == 1:
        return '+-+\n# Legend:\na = {' + body + '}\n'
    if where == 2:
        return '+' + '-' * 8 + '+\n| ' + body + ' |\n'
    return body + '\n'


def fam_legend_mix(rng):
    """multi-byte drawings with every line-ending convention, followed (or interrupted) by legend headers:
    byte offsets, char offsets and line offsets all differ"""
    alpha = gen.UNI_DRAW + '日本é✓\u1100\u26a1\u2329' + "-|+. '"
    rows = [''.join(rng.choice(alpha) for _ in range(rng.randint(0, 12))) for _ in range(rng.randint(0, 12))]
    nl = rng.choice(['\r\n', '\r\n', '\n', '\r', None])
    def join(lines):
        if nl is None:
            return ''.join(l + rng.choice(['\r\n', '\n', '\r']) for l in lines)
        return ''.join(l + nl for l in lines)
    head = rng.choice(['# Legend:', '# Legend:', ' # Legend:', 'x # Legend:', '# Legend: ', '#Legend:', '# Legend:# Legend:', '日# Legend:'])
    entries = [rng.choice(['a = {fill:red}', 'é = {x}', 'a = {日本}', 'b={stroke:blue;\n x:y}', 'broken {', '', 'a = {x} trailing', 'c = {é}'])
               for _ in range(rng.randint(0, 4))]
    doc = join(rows) + join([head] + entries)
    if rng.random() < 0.3:
        doc += join(rows[:3]) + join(['# Legend:'] + entries[:2])
    return doc


def fam_nesting(rng):
    """deep nesting / long runs of the bracket-like characters of the two grammars, in every channel"""
    m = rng.choice([1000, 10000, 100000, 300000])
    o, c = rng.choice([('{', '}'), ('"', '"'), ('(', ')'), ('\\"', ''), ('{a,', '}'), ('[', ']'), ('{', '')])
    body = o * m + 'x' + (c * m if rng.random() < 0.5 else '')
    where = rng.randrange(4)
    if where == 0:
        return '+-+\n# Legend:\na = ' + body + '\n'
    if where == 1:
        return '+-+\n# Legend:\na = {' + body + '}\n'
    if where == 2:
        return '# Legend:\n' + body + ' = {x}\n'
    return body[:20001] + '\n'


def fam_ladder(rng, size):
    alpha = gen.ASCII_DRAW + gen.UNI_DRAW + 'ab'
    w = 64
    h = max(1, size // w)
    rows = [''.join(rng.choice(alpha) if rng.random() < 0.6 else ' ' for _ in range(w)) for _ in range(h)]
    return gen.text_of(rows)


def run_shard(ctx, shard):
    rng = rng_for(ctx.seed, ID, shard['name'])
    fam = shard['family']
    circles = ctx.extra.get('circles')
    for i in range(shard['n']):
        if fam == 'dense':
            inp = fam_dense(rng)
        elif fam == 'mutated':
            inp = fam_mutated(rng, circles)
        elif fam == 'crossover':
            inp = fam_crossover(rng, circles)
        elif fam == 'unicode':
            inp = fam_unicode(rng)
        elif fam == 'grammar':
            inp = fam_grammar(rng)
        elif fam == 'stress':
            inp = fam_stress(rng, shard.get('big', False))
        elif fam == 'connected':
            inp = fam_connected(rng, shard['cells'])
        elif fam == 'cold':
            # a big sheet of thousands of separate marks as the first conversion of a process
            inp = gen.text_of(gen.page(rng, shard['groups']))
        elif fam == 'ladder':
            inp = fam_ladder(rng, shard['size'])
        elif fam == 'nesting':
            inp = fam_nesting(rng)
        elif fam == 'legend_mix':
            inp = fam_legend_mix(rng)
        else:
            raise ValueError(fam)
        kw = settings_for(rng) if fam not in ('ladder', 'nesting') else {'entry': rng.choice([0, 2, 3])}
        if (fam == 'stress' and shard.get('big')) or fam == 'connected':
            kw = {'entry': rng.choice([0, 2, 3])}
        case = {'input': inp, 'kw': kw, 'family': fam}
        if fam == 'cold':
            case['cold'] = True
            case['kw'] = {'entry': rng.choice([0, 3])}
        if fam in ('connected', 'cold') or (fam == 'stress' and shard.get('big')):
            # the biggest documents take up to half a minute on an idle machine: the wall-clock watchdog (whose second
            # firing is reported as a hang) leaves a factor of 20, the step fuse is what bounds the work
            case['watchdog'] = 600.0
        ctx.run_case(case)
        if i == 0:
            ctx.sample({'family': fam, 'kw': kw, 'input': inp[:300]})
    # fixed corner cases once per run
    if shard.get('corners'):
        for inp in ['', ' ', '\n', '\n\n\n', '\t', '\r', '"', '""', '"\n"', '{', '}', '{}', '# Legend:', '# Legend:\n', '\x00', '﻿',
                    ' ' * 5000, '\n' * 5000, '"' * 999, '\\' * 999, '{a}' * 500]:
            for entry in range(5):
                for scale in SCALES:
                    ctx.run_case({'input': inp, 'kw': {'entry': entry, 'scale': scale, 'flags': 7}, 'family': 'corner'})


def classify(case, msg):
    return None


# ---------------------------------------------------------------------------------------------
# sanitizer / interpreter legs (thorough)

def asan_leg(run, info):
    """the same families on an AddressSanitizer build of the driver"""
    tdir = os.path.join(TARGET, 'asan')
    env = {'RUSTFLAGS': '-Zsanitizer=address -Cforce-frame-pointers=yes', 'RUSTUP_TOOLCHAIN': 'nightly'}
    cmd = ['cargo', '+nightly', 'build', '--offline', '--release', '--target', 'x86_64-unknown-linux-gnu', '--target-dir', tdir]
    try:
        _run_build(cmd, HARNESS, env_extra=env, what='ASan driver build')
    except BuildError as e:
        run.inconclusive['ASan build failed: %s' % str(e)[-300:]] += 1
        return
    binary = os.path.join(tdir, 'x86_64-unknown-linux-gnu', 'release', 'svgbob-verif-driver')
    shards = []
    for fam, n in [('dense', 600), ('mutated', 600), ('unicode', 800), ('grammar', 800), ('stress', 60)]:
        for i in range(4):
            shards.append({'name': 'asan-%s-%d' % (fam, i), 'family': fam, 'n': n})
    before = run.evals
    extra = {'circles': info['circles'], 'driver_env': {'ASAN_OPTIONS': 'halt_on_error=1:abort_on_error=1:detect_leaks=0'}}
    run.run_shards(binary, shards, extra=extra)
    run.extra_cov['asan_evaluations'] = run.evals - before


def checked_leg(run, info):
    """debug assertions and overflow checks on"""
    try:
        binary = build_driver('checked')
    except BuildError as e:
        run.inconclusive['checked build failed: %s' % str(e)[-300:]] += 1
        return
    shards = []
    for fam, n in [('dense', 2000), ('mutated', 2000), ('unicode', 2500), ('grammar', 2500), ('stress', 100)]:
        for i in range(4):
            shards.append({'name': 'checked-%s-%d' % (fam, i), 'family': fam, 'n': n, 'corners': fam == 'grammar' and i == 0})
    before = run.evals
    run.run_shards(binary, shards, extra={'circles': info['circles']})
    run.extra_cov['debug_assertions_evaluations'] = run.evals - before


def miri_leg(run, seeds):
    """2 threads racing on first use + sequential conversions inside the Miri interpreter"""
    tdir = os.path.join(TARGET, 'miri')
    env = dict(os.environ)
    env.update(OFFLINE_ENV)
    env['MIRIFLAGS'] = '-Zmiri-disable-isolation'
    env.pop('RUSTFLAGS', None)
    procs = []
    t0 = time.time()
    os.makedirs(WORK, exist_ok=True)
    # build once (sequentially), then run the seeds in parallel
    for seed in seeds:
        e = dict(env)
        e['MIRIFLAGS'] = '-Zmiri-disable-isolation -Zmiri-seed=%d' % seed
        out = open(os.path.join(WORK, 'miri-%d.log' % seed), 'w')
        p = subprocess.Popen(['cargo', '+nightly', 'miri', 'run', '--offline', '--target-dir', tdir, '--', 'miri'],
                             cwd=HARNESS, env=e, stdout=out, stderr=subprocess.STDOUT)
        procs.append((seed, p, out))
        if seed == seeds[0]:
            # let the first one do the (locked) build of the sysroot and the crate
            time.sleep(90)
    ref = None
    ok = 0
    for seed, p, out in procs:
        try:
            rc = p.wait(timeout=3 * 3600)
        except subprocess.TimeoutExpired:
            p.kill()
            run.inconclusive['miri seed %d: watchdog' % seed] += 1
            continue
        out.close()
        txt = open(os.path.join(WORK, 'miri-%d.log' % seed)).read()
        digests = [l for l in txt.split('\n') if l.startswith(('race', 'seq'))]
        if rc != 0 or 'Undefined Behavior' in txt or 'error:' in txt and not digests:
            if 'Undefined Behavior' in txt or 'data race' in txt.lower() or 'panicked' in txt:
                run.violations.append({'case': {'miri_seed': seed, 'workload': 'driver miri mode'},
                                       'message': 'Miri reports: ' + txt[-1500:], 'signature': None})
                run.nviol += 1
            else:
                run.inconclusive['miri seed %d failed to run: %s' % (seed, txt[-300:])] += 1
            continue
        if ref is None:
            ref = digests
        elif digests != ref:
            run.violations.append({'case': {'miri_seed': seed, 'workload': 'driver miri mode'},
                                   'message': 'outputs differ between Miri schedules: %r vs %r' % (digests, ref), 'signature': None})
            run.nviol += 1
            continue
        ok += 1
        inits = [l for l in txt.split('\n') if l.startswith('init ')]
        run.tags['miri_init_events'] += len(inits)
    run.tags['miri_runs_clean'] += ok
    # the same workload natively: the interpreter and the machine must agree on every document
    native = None
    try:
        r = subprocess.run([build_driver(), 'miri'], stdout=subprocess.PIPE, stderr=subprocess.DEVNULL, timeout=300)
        native = [l for l in r.stdout.decode().split('\n') if l.startswith(('race', 'seq'))]
        if ref is not None and native != ref:
            run.inconclusive['the digests under Miri differ from the native run (Miri may perturb float intrinsics): %r vs %r' % (ref, native)] += 1
    except Exception as e:
        run.inconclusive['native run of the miri workload failed: %r' % (e,)] += 1
    run.extra_cov['miri'] = {'seeds': list(seeds), 'clean': ok, 'wall_s': round(time.time() - t0), 'digests': ref, 'native_digests_equal': native == ref}
    return ref


def race_leg(run, binary, circles, nproc, ndocs):
    """totality under concurrency: T threads of one process convert a hostile corpus at the same time
    (driver `race` mode); every single conversion must return a document"""
    import struct
    import c07
    rng = rng_for(run.seed, ID, 'race-corpus')
    docs = []
    for i in range(ndocs):
        fam = (fam_dense, fam_unicode, fam_grammar, fam_legend_mix)[i % 4]
        docs.append(fam(rng) if fam is not fam_dense else fam_dense(rng))
    for i in range(ndocs // 4):
        docs.append(fam_mutated(rng, circles))
    # two big connected groups: the threads of the race process have the small default stack of spawned threads
    docs.append(fam_connected(rng, 20000))
    docs.append(fam_connected(rng, 40000))
    docs = [d.replace('\x1e', ' ') for d in docs]
    keys = [(i % 4 if i % 4 != 3 else 3, d, 'white', 'black', 8.0) for i, d in enumerate(docs)]
    os.makedirs(WORK, exist_ok=True)
    cpath = os.path.join(WORK, 'c01-race-corpus.bin')
    c07.write_corpus(cpath, keys)
    env = dict(os.environ)
    env.pop('RUST_BACKTRACE', None)
    procs = []
    for k in range(nproc):
        T = (2, 4, 8, 16)[k % 4]
        out = os.path.join(WORK, 'c01-race-%d.bin' % k)
        # every other process gives its threads the 2 MiB stack a spawned thread has by default (a server's workers)
        penv = dict(env, VERIF_THREAD_STACK=str(2 << 20)) if k % 2 else env
        procs.append((T, out, subprocess.Popen([binary, 'race', str(T), cpath, out], env=penv, stdout=subprocess.DEVNULL, stderr=subprocess.PIPE)))
    n = 0
    for T, out, p in procs:
        try:
            _, err = p.communicate(timeout=1800)
        except subprocess.TimeoutExpired:
            p.kill()
            run.inconclusive['race process watchdog'] += 1
            continue
        if p.returncode != 0 or not os.path.exists(out):
            run.violations.append({'case': {'race_threads': T, 'corpus': 'hostile families, seed %d' % run.seed}, 'signature': None,
                                   'message': 'a process in which %d threads convert concurrently died with status %s: %s' % (T, p.returncode, err.decode('utf-8', 'replace')[-600:])})
            run.nviol += 1
            continue
        res, init = c07.read_race(out)
        os.unlink(out)
        for (t, i, st, body) in res:
            n += 1
            if st != 0:
                run.violations.append({'case': {'input': docs[i], 'kw': {'entry': keys[i][0]}, 'family': 'race', 'race_threads': T}, 'signature': None,
                                       'message': 'conversion panicked while %d threads were converting concurrently: %s' % (T, body.decode('utf-8', 'replace')[:300])})
                run.nviol += 1
                if run.nviol > 20:
                    break
    run.evals += n
    run.tags['concurrent_conversions'] += n
    run.tags['race_processes'] += nproc


def execute(run):
    from vlib import driver_info
    binary = build_driver()
    info = driver_info(binary)
    extra = {'circles': info['circles']}
    # the generator alphabets against the drawing tables of the tree under test
    keys = set(info['ascii']) | set(info['unicode_properties']) | set(info['unicode_fragments'])
    run.extra_cov['drawing_characters_of_the_tree'] = len(keys)
    run.extra_cov['drawing_characters_not_in_the_generator_alphabets'] = ''.join(sorted(keys - set(gen.ASCII_DRAW + gen.UNI_DRAW + gen.UNI_MORE)))
    shards = []
    if run.tier == 'quick':
        plan = [('dense', 16, 1500), ('mutated', 16, 1200), ('crossover', 16, 800), ('unicode', 16, 2200), ('grammar', 16, 2200), ('legend_mix', 16, 1500), ('stress', 16, 12)]
        for fam, k, n in plan:
            for i in range(k):
                shards.append({'name': '%s-%d' % (fam, i), 'family': fam, 'n': n, 'corners': fam == 'grammar' and i == 0})
        shards += [{'name': 'stress-big-%d' % i, 'family': 'stress', 'n': 2, 'big': True} for i in range(8)]
        shards += [{'name': 'connected-%d' % i, 'family': 'connected', 'n': 2, 'cells': [12000, 20000, 30000, 60000][i % 4]} for i in range(8)]
        shards += [{'name': 'cold-%d' % i, 'family': 'cold', 'n': 1, 'groups': [3000, 6500, 8000, 10000][i % 4]} for i in range(4)]
        shards += [{'name': 'ladder-%d' % s, 'family': 'ladder', 'n': 1, 'size': s} for s in (1024, 2048, 4096)]
        shards += [{'name': 'nesting-%d' % i, 'family': 'nesting', 'n': 8} for i in range(4)]
    else:
        plan = [('dense', 64, 9000), ('mutated', 64, 8000), ('crossover', 64, 5000), ('unicode', 64, 14000), ('grammar', 64, 14000), ('legend_mix', 64, 9000), ('stress', 32, 40)]
        for fam, k, n in plan:
            for i in range(k):
                shards.append({'name': '%s-%d' % (fam, i), 'family': fam, 'n': n, 'corners': fam == 'grammar' and i == 0})
        shards += [{'name': 'stress-big-%d' % i, 'family': 'stress', 'n': 6, 'big': True} for i in range(16)]
        shards += [{'name': 'connected-%d' % i, 'family': 'connected', 'n': 5, 'cells': [12000, 30000, 70000, 130000][i % 4]} for i in range(20)]
        shards += [{'name': 'cold-%d' % i, 'family': 'cold', 'n': 3, 'groups': [3000, 6500, 8000, 10000, 14000][i % 5]} for i in range(10)]
        shards += [{'name': 'ladder-%d-%d' % (s, j), 'family': 'ladder', 'n': 1, 'size': s} for s in (1024, 2048, 4096, 8192, 16384) for j in range(2)]
        shards += [{'name': 'nesting-%d' % i, 'family': 'nesting', 'n': 20} for i in range(8)]
    # long shards first so that the pool is balanced
    shards.sort(key=lambda s: 0 if s['family'] in ('ladder', 'nesting') or s.get('big') else 1)
    run.run_shards(binary, shards, extra=extra)
    race_leg(run, binary, info['circles'], 4 if run.tier == 'quick' else 16, 240 if run.tier == 'quick' else 800)
    if run.tier == 'thorough':
        checked_leg(run, info)
        asan_leg(run, info)
        miri_leg(run, list(range(8)))


if __name__ == '__main__':
    sys.exit(main(sys.modules[__name__]))
