"""C05 - rectangles are recognised completely and only where a box is drawn.

Completeness: every generated closed box must come out as exactly one rect (plus its interior label
texts) with the closed-form position, size, corner radius and solid/dashed class.
Soundness, two observers on every execution of every workload:
 (a) hook invariant - at each `endorse` event the outline of the resulting rect equals, as a point set,
     the union of the strokes of the source fragments it replaces (exact arithmetic on the logged fragments);
 (b) black box, deliberately weak - every emitted outline rect sits on cell centres, has corner characters
     consistent with its radius at its four corners, no blank along its edges, and is dashed iff a dashed
     character lies on an edge.
"""
import itertools
import re
import sys

import gen
from c03 import norm
from vlib import F, Malformed, Scene, arc_center, build_driver, driver_info, key_of, main, rng_for, show_el

ID = 'C05'
LEVEL = 'exploration'
RULE = ('completeness: boxes of interior width 0..60 x height 0..30 x 4 offsets x corner styles (+ | . \' | , ` mixes | box drawing '
        'sharp | box drawing round) x edge styles (- ~ | with : ! stretches; box drawing solid/dashed) x interior (empty, label, '
        'several label rows); soundness: every rect in random grids over {-,|,+,.,\',`,,,~,:,!,space}, in near-boxes (1..3 mutations: '
        'gaps, overhangs, rungs, T-junctions, shared walls) and in all grids up to 3x3/4x3 over two small alphabets; non-trivial = '
        'distinct input that yields an endorse event or is a generated box / near-box')
ASSUMPTIONS = ['rounded styles start at interior width 1 (two corner glyphs without an edge between them do not denote a box)',
               'a side consisting of one single : or ! is punctuation by design and is left out of the completeness family',
               'hook invariant compares point sets: how many pieces are merged before endorsing is not constrained']
FLOORS = {'quick': {'completeness_boxes': 1500, 'endorse_events': 2000, 'gap_inputs': 500},
          'thorough': {'completeness_boxes': 40000, 'endorse_events': 100000, 'gap_inputs': 20000}}

DASHED = set('~:!┄┊┆╎')
HZ_ASCII = ['-', '~']
STYLES = [
    # name, tl, tr, bl, br, hz choices, vt choices, rounded
    ('sharp', '+', '+', '+', '+', ['-', '~'], ['|'], False),
    ('round1', '.', '.', "'", "'", ['-', '~'], ['|'], True),
    ('round2', ',', '.', '`', "'", ['-', '~'], ['|'], True),
    ('round3', '.', '.', '`', "'", ['-'], ['|'], True),
    ('round4', ',', '.', "'", "'", ['-'], ['|'], True),
    ('uni', '┌', '┐', '└', '┘', ['─', '┄'], ['│', '┊'], False),
    ('unir', '╭', '╮', '╰', '╯', ['─', '┄'], ['│', '┊'], True),
    # radius of one cell: the corner glyphs sit one column inside the sides, ` .--. ` over `|    |`
    ('biground', '.', '.', "'", "'", ['-', '~'], ['|'], True),
]
LABELS = ['ab', 'hi', 'k9', 'Zq7', 'label', 'A1 b2']


def make_box(w, h, style, hz, vt, dash_rows, interior, ox, oy):
    name, tl, tr, bl, br = style[:5]
    if name == 'biground':
        rows = [' ' + tl + hz * w + tr]
        for r in range(h):
            v = dash_rows.get(r, vt)
            inner = interior.get(r, '')
            rows.append(v + ' ' + inner + ' ' * (w - len(inner)) + ' ' + v)
        rows.append(' ' + bl + hz * w + br)
        return [''] * oy + [' ' * ox + r for r in rows]
    rows = [tl + hz * w + tr]
    for r in range(h):
        v = dash_rows.get(r, vt)
        inner = interior.get(r, '')
        rows.append(v + inner + ' ' * (w - len(inner)) + v)
    rows.append(bl + hz * w + br)
    return [''] * oy + [' ' * ox + r for r in rows]


def expected_rect(w, h, rounded, dashed, ox, oy, big=False):
    cls = tuple(sorted(['broken' if dashed else 'solid', 'nofill']))
    if big:
        return ('rect', cls, F(ox * 8 + 4), F(oy * 16 + 8), F((w + 3) * 8), F((h + 1) * 16), F(8))
    return ('rect', cls, F(ox * 8 + 4), F(oy * 16 + 8), F((w + 1) * 8), F((h + 1) * 16), F(4) if rounded else F(0))


# ---------------------------------------------------------------------------------------------
# observers used on every execution

_PT = re.compile(r'^\((-?[\d.]+(?:e-?\d+)?),(-?[\d.]+(?:e-?\d+)?)\)$')


def P(s):
    m = _PT.match(s)
    return (F(m[1]), F(m[2]))


def hook_invariant(events):
    """outline(rect) == union of the source strokes, for every endorse event; returns (count, problem)"""
    n = 0
    for ev in events:
        if not ev.startswith('endorse|'):
            continue
        n += 1
        _, kind, src, res, radius, broken = ev.split('|')
        m = re.match(r'^R (\S+) (\S+)$', res)
        (x0, y0), (x1, y1) = P(m[1]), P(m[2])
        if x0 > x1:
            x0, x1 = x1, x0
        if y0 > y1:
            y0, y1 = y1, y0
        lines = []
        arcs = []
        for f in src.split(';'):
            t = f.split()
            if t[0] == 'L':
                lines.append((P(t[1]), P(t[2])))
            elif t[0] == 'A':
                arcs.append((P(t[1]), P(t[2]), F(t[3]), t[5], t[6], t[7]))
            else:
                return n, 'endorse event with a source fragment that is neither line nor arc: %r' % f
        rad = F(0) if radius == '-' else F(radius)
        if kind == 'rect':
            want = [((x0, y0), (x1, y0)), ((x0, y1), (x1, y1)), ((x0, y0), (x0, y1)), ((x1, y0), (x1, y1))]
            if arcs or norm(lines) != norm(want):
                return n, 'rect %s is not the outline drawn by its source fragments %s' % (res, src)
        else:
            want = [((x0 + rad, y0), (x1 - rad, y0)), ((x0 + rad, y1), (x1 - rad, y1)), ((x0, y0 + rad), (x0, y1 - rad)), ((x1, y0 + rad), (x1, y1 - rad))]
            if norm(lines) != norm(want) or len(arcs) != 4:
                return n, 'rounded rect %s r=%s is not the outline drawn by its source fragments %s' % (res, rad, src)
            wantarcs = {frozenset(((x0 + rad, y0), (x0, y0 + rad))): (x0 + rad, y0 + rad),
                        frozenset(((x1 - rad, y0), (x1, y0 + rad))): (x1 - rad, y0 + rad),
                        frozenset(((x0, y1 - rad), (x0 + rad, y1))): (x0 + rad, y1 - rad),
                        frozenset(((x1, y1 - rad), (x1 - rad, y1))): (x1 - rad, y1 - rad)}
            seen = set()
            for (a, b, r, rot, major, sweep) in arcs:
                k = frozenset((a, b))
                if k not in wantarcs or k in seen or r != rad:
                    return n, 'rounded rect %s r=%s: corner arc %s..%s r=%s is not a corner of the outline' % (res, rad, a, b, r)
                seen.add(k)
                (cx, cy), rr = arc_center(a[0], a[1], r, major, sweep, b[0], b[1])
                wx, wy = wantarcs[k]
                if abs(cx - float(wx)) > 1e-6 or abs(cy - float(wy)) > 1e-6:
                    return n, 'rounded rect %s: corner arc %s..%s bulges inward (centre %.3f,%.3f, expected %s,%s)' % (res, a, b, cx, cy, wx, wy)
    return n, None


SHARP_CORNERS = {'tl': set('+┌├┬┼╔╒╓'), 'tr': set('+┐┤┬┼╗╕╖'), 'bl': set('+└├┴┼╚╘╙'), 'br': set('+┘┤┴┼╝╛╜')}
ROUND_CORNERS = {'tl': set('.,╭'), 'tr': set('.╮'), 'bl': set("'`╰"), 'br': set("'╯")}


def black_box(rows, scene):
    """weak soundness of every outline rect of a scene against the characters; returns (rects, problem)"""
    cols = [gen.columns(r) for r in rows]

    def at(x, y):
        if 0 <= y < len(cols) and 0 <= x < len(cols[y]):
            return cols[y][x]
        return ' '
    n = 0
    for e, ing in scene.flat():
        if e[0] != 'rect' or 'nofill' not in e[1]:
            continue
        n += 1
        x0 = e[2] / 8 - F(1, 2)
        y0 = e[3] / 16 - F(1, 2)
        x1 = x0 + e[4] / 8
        y1 = y0 + e[5] / 16
        if any(v.denominator != 1 for v in (x0, y0, x1, y1)):
            return n, 'rect %s does not sit on cell centres' % show_el(e)
        x0, y0, x1, y1 = map(int, (x0, y0, x1, y1))
        if e[6] == 8:
            # radius of one cell: the corner glyphs sit one column inside the sides (`.---.` over `|     |`),
            # the corner cells of the bounding box themselves are not part of the outline
            if x1 - x0 < 2:
                return n, 'rect %s with a radius of one cell is narrower than two cells' % show_el(e)
            cs = {'tl': at(x0 + 1, y0), 'tr': at(x1 - 1, y0), 'bl': at(x0 + 1, y1), 'br': at(x1 - 1, y1)}
            edge = [(x, y0) for x in range(x0 + 1, x1)] + [(x, y1) for x in range(x0 + 1, x1)] + \
                   [(x0, y) for y in range(y0 + 1, y1)] + [(x1, y) for y in range(y0 + 1, y1)]
        elif e[6] in (0, 4):
            cs = {'tl': at(x0, y0), 'tr': at(x1, y0), 'bl': at(x0, y1), 'br': at(x1, y1)}
            edge = [(x, y0) for x in range(x0, x1 + 1)] + [(x, y1) for x in range(x0, x1 + 1)] + \
                   [(x0, y) for y in range(y0, y1 + 1)] + [(x1, y) for y in range(y0, y1 + 1)]
        else:
            return n, 'rect %s has a corner radius that no border character draws' % show_el(e)
        table = ROUND_CORNERS if e[6] > 0 else SHARP_CORNERS
        for k, c in cs.items():
            if c not in table[k]:
                return n, 'rect %s: its %s corner cell holds %r, which does not draw a %s corner' % (show_el(e), k, c, 'rounded' if e[6] > 0 else 'sharp')
        for (x, y) in edge:
            if at(x, y) in ' \0':
                return n, 'rect %s: no border character at cell (%d,%d) of its outline' % (show_el(e), x, y)
        dashed = any(at(x, y) in DASHED for x, y in edge)
        if ('broken' in e[1]) != dashed:
            return n, 'rect %s: dashed class %s but dashed border characters %s' % (show_el(e), 'broken' in e[1], dashed)
    return n, None


def observe(ctx, rows, r, sc):
    """the two soundness observers; returns a message or None"""
    ne, prob = hook_invariant(r.events)
    ctx.tag('endorse_events', ne)
    if prob:
        return prob
    nr, prob = black_box(rows, sc)
    ctx.tag('rects_checked', nr)
    if prob:
        return prob
    if nr != ne:
        return '%d outline rects in the output but %d endorse events' % (nr, ne)
    return None


# ---------------------------------------------------------------------------------------------

def check_case(ctx, case):
    kind = case['kind']
    rows = case['rows']
    r = ctx.conv(gen.text_of(rows), record=True)
    if not r.ok:
        return 'conversion failed: ' + r.fail_text()
    try:
        sc = Scene(r.out)
    except Malformed as e:
        return 'output not parseable: %s' % e
    msg = observe(ctx, rows, r, sc)
    if msg is None and kind == 'box' and key_of(rows)[0] % 8 == 0 and not any('"' in x for x in rows):
        # the box drawn into a CellBuffer that already rendered another drawing (a box elsewhere, then edited through the
        # public map interface): recognition must be that of the cells the buffer holds now (driver entry 6)
        first = ['', '  +----+', '  |    |    .--.', "  +----+    '--'"]
        r6 = ctx.conv(gen.text_of(first) + '\x1e' + gen.text_of(rows), entry=6)
        ctx.tag('boxes_drawn_into_a_used_buffer')
        if not r6.ok or r6.out != r.out:
            msg = 'a box drawn into a buffer that rendered another drawing before is not recognised as in a fresh buffer'
    nrect = sum(1 for e, _ in sc.flat() if e[0] == 'rect' and 'nofill' in e[1])
    if kind == 'box':
        ctx.note(key_of(rows), True, 'completeness_boxes', 'style_' + case['style'])
        want = tuple(case['want'])
        want = (want[0], tuple(want[1])) + tuple(F(x) for x in want[2:])
        leaves = sc.leaves()
        rects = [e for e in leaves if e[0] == 'rect']
        others = [e for e in leaves if e[0] not in ('rect', 'text')]
        if msg is None and (rects != [want] or others):
            msg = 'closed box is not emitted as exactly the rect %s: got %s' % (show_el(want), [show_el(e) for e in sc.els[:4]])
        if msg is None:
            texts = sorted((e[3], e[2], e[4]) for e in leaves if e[0] == 'text')
            ax, ay = ctx.anchor()
            wt = sorted((F(y * 16) + ay, F(x * 8) + ax, t) for x, y, t in case['texts'])
            if texts != wt:
                msg = 'interior labels: expected %r, got %r' % (wt, texts)
    else:
        tags = ['soundness_' + kind]
        if case.get('gap'):
            tags.append('gap_inputs')
        ctx.note(key_of(rows), nrect > 0 or kind == 'near', *tags)
        if case.get('gap') and msg is None:
            # the box whose border was broken must not come back as a rect covering the gap: implied by black_box
            pass
    return msg


def box_case(rng, w, h, style, ox, oy, with_dash=None):
    name, tl, tr, bl, br, hzs, vts, rounded = style
    hz = rng.choice(hzs)
    vt = rng.choice(vts)
    dash_rows = {}
    if vt == '|' and h >= 2 and (with_dash if with_dash is not None else rng.random() < 0.4):
        # 1..3 dashed stretches, each of length >= 1, but never a side that is one single dashed character
        for _ in range(rng.randint(1, 3)):
            a = rng.randrange(h)
            b = min(h, a + rng.randint(1, 3))
            ch = rng.choice(':!')
            for y in range(a, b):
                dash_rows[y] = ch
    if vt == '|' and h >= 2 and rng.random() < 0.05:
        ch = rng.choice(':!')
        dash_rows = {y: ch for y in range(h)}
    interior = {}
    texts = []
    mode = rng.random()
    if h >= 5 and w >= 12 and mode > 0.7:
        # a frame around many separate words (every word its own group: two blanks apart, every other row)
        for y in range(1, h - 1, 2):
            row = ' '
            x = 2
            while x + 2 <= w - 1:
                word = rng.choice(['ab', 'k9', 'qz', 'hi'])
                row = row.ljust(x) + word
                texts.append((ox + 1 + x + (1 if name == 'biground' else 0), oy + 1 + y, word))
                x += 4
            interior[y] = row
    elif h >= 1 and w >= 4 and mode < 0.5:
        nrows = 1 if mode < 0.3 else rng.randint(1, min(h, 3))
        for y in rng.sample(range(h), nrows):
            lab = rng.choice(LABELS)
            if w >= 8 and rng.random() < 0.15:
                # a quoted label, also with characters that occupy a column but have no width of their own
                qb = rng.choice(['ok', 'e\u0301', 'a\u200bb', 'x\u200dy', '\u05d0\u200f'])
                pad = rng.randint(1, w - len(qb) - 3)
                interior[y] = ' ' * pad + '"' + qb + '"'
                texts.append((ox + 1 + pad + (1 if name == 'biground' else 0), oy + 1 + y, qb))
                continue
            if len(lab) + 2 > w:
                lab = lab[:w - 2].strip()
                if not lab:
                    continue
            pad = rng.randint(1, w - len(lab) - 1)
            if name != 'biground' and rng.random() < 0.3:
                # the label touches a side (also a dashed stretch of it)
                pad = rng.choice([0, w - len(lab)])
            interior[y] = ' ' * pad + lab
            col = ox + 1 + pad + (1 if name == 'biground' else 0)
            for word in lab.split(' '):
                texts.append((col, oy + 1 + y, word))
                col += len(word) + 1
    rows = make_box(w, h, style, hz, vt, dash_rows, interior, ox, oy)
    if h >= 1 and ox >= 4 and name != 'biground' and rng.random() < 0.1:
        # a word outside the box that touches its left side
        word = rng.choice(['ab', 'opt', 'k9'])
        y = rng.randrange(h)
        r = rows[oy + 1 + y]
        rows[oy + 1 + y] = r[:ox - len(word)] + word + r[ox:]
        texts.append((ox - len(word), oy + 1 + y, word))
    if rng.random() < 0.05:
        # the blanks of the page are no-break spaces (text copied from a web page): still blanks, one column each
        nb = rng.choice(['\u00a0', '\u2007', '\u202f'])
        rows = [r.replace(' ', nb) for r in rows]
    dashed = (hz in DASHED and w > 0) or (vt in DASHED and h > 0) or bool(dash_rows)
    want = expected_rect(w, h, rounded, dashed, ox, oy, big=(name == 'biground'))
    return {'kind': 'box', 'rows': rows, 'style': name, 'want': [want[0], list(want[1])] + [str(x) for x in want[2:]], 'texts': texts}


def near_box(rng):
    """boxes with 1..3 mutations on a canvas"""
    W = rng.randint(8, 18)
    H = rng.randint(5, 10)
    g = [[' '] * W for _ in range(H)]
    border = []
    for b in range(rng.randint(1, 3)):
        st = rng.choice(STYLES[:3] if rng.random() < 0.8 else STYLES)
        w = rng.randint(0 if not st[7] else 1, 6)
        h = rng.randint(1 if st[0] == 'biground' else 0, 4)
        rows = make_box(w, h, st, rng.choice(st[5]), rng.choice(st[6]), {}, {}, 0, 0)
        bw = max(len(r) for r in rows)
        if bw > W or len(rows) > H:
            continue
        ox = rng.randint(0, W - bw)
        oy = rng.randint(0, H - len(rows))
        for y, r in enumerate(rows):
            for x, ch in enumerate(r):
                if ch != ' ':
                    g[oy + y][ox + x] = ch
                    border.append((ox + x, oy + y))
    gap = False
    boxes = []
    for m in range(rng.randint(1, 3)):
        op = rng.randrange(7)
        if op == 0 and border:
            x, y = rng.choice(border)
            g[y][x] = ' '
            gap = True
        elif op == 1 and border:
            x, y = rng.choice(border)
            g[y][x] = rng.choice("-|+.'`,~:!")
        elif op == 2 and border:
            # overhang / stub next to a border character
            x, y = rng.choice(border)
            dx, dy = rng.choice([(1, 0), (-1, 0), (0, 1), (0, -1)])
            if 0 <= x + dx < W and 0 <= y + dy < H and g[y + dy][x + dx] == ' ':
                g[y + dy][x + dx] = '-' if dx else '|'
        elif op == 3:
            # rung: a horizontal or vertical run somewhere
            y = rng.randrange(H)
            x = rng.randrange(W)
            ch = rng.choice('-|')
            for k in range(rng.randint(1, 5)):
                xx, yy = (x + k, y) if ch == '-' else (x, y + k)
                if 0 <= xx < W and 0 <= yy < H and g[yy][xx] == ' ':
                    g[yy][xx] = ch
        elif op == 4:
            x = rng.randrange(W)
            y = rng.randrange(H)
            g[y][x] = rng.choice("-|+.' -|")
        elif op == 5 and border:
            # rungs: fill a blank stretch of a row that starts next to a border character
            x, y = rng.choice(border)
            ch = rng.choice('-~')
            k = x + 1
            while k < W and g[y][k] == ' ':
                g[y][k] = ch
                k += 1
        elif border:
            # a stroke character diagonally next to a border character (corner glyphs then draw longer arcs)
            x, y = rng.choice(border)
            dx, dy = rng.choice([(1, 1), (-1, 1), (1, -1), (-1, -1)])
            if 0 <= x + dx < W and 0 <= y + dy < H and g[y + dy][x + dx] == ' ':
                g[y + dy][x + dx] = rng.choice('|+-')
    return {'kind': 'near', 'rows': [''.join(r).rstrip() for r in g], 'gap': gap}


def run_shard(ctx, shard):
    k = shard['kind']
    if k == 'boxes':
        rng = rng_for(ctx.seed, ID, shard['name'])
        style = STYLES[shard['style']]
        wmin = 1 if style[7] else 0
        for w in shard['widths']:
            if w < wmin:
                continue
            for h in shard['heights']:
                if style[0] == 'biground' and h < 1:
                    continue
                for (ox, oy) in shard['offsets']:
                    case = box_case(rng, w, h, style, ox, oy)
                    ctx.run_case(case)
        ctx.sample({'box': case['rows'][:6]})
    elif k == 'near':
        rng = rng_for(ctx.seed, ID, shard['name'])
        for i in range(shard['n']):
            case = near_box(rng)
            ctx.run_case(case)
            if i == 0:
                ctx.sample({'near_box': case['rows']})
    elif k == 'rand':
        rng = rng_for(ctx.seed, ID, shard['name'])
        alpha = "-|+.'`,~:!"
        for i in range(shard['n']):
            w = rng.randint(2, 10)
            h = rng.randint(2, 6)
            dens = rng.choice([0.5, 0.8, 1.0])
            wts = rng.choice([[4, 4, 3, 1, 1, 1, 1, 1, 1, 1], [6, 3, 3, 2, 2, 1, 1, 0, 0, 0], [1] * 10, [5, 5, 5, 0, 0, 0, 0, 0, 0, 0]])
            rows = [''.join(rng.choices(alpha, wts)[0] if rng.random() < dens else ' ' for _ in range(w)) for _ in range(h)]
            ctx.run_case({'kind': 'rand', 'rows': rows})
            if i == 0:
                ctx.sample({'random_grid': rows})
    elif k == 'exh':
        alpha = shard['alpha']
        w, h = shard['w'], shard['h']
        na = len(alpha)
        for i in range(shard['lo'], shard['hi'], shard.get('step', 1)):
            cells = []
            j = i
            for _ in range(w * h):
                cells.append(alpha[j % na])
                j //= na
            rows = [''.join(cells[r * w:(r + 1) * w]) for r in range(h)]
            ctx.run_case({'kind': 'exh', 'rows': rows})


def exh_shards(alpha, w, h, per, step=1):
    total = len(alpha) ** (w * h)
    out = []
    lo = 0
    while lo < total:
        hi = min(total, lo + per * step)
        out.append({'kind': 'exh', 'name': 'exh-%s-%dx%d-%d' % (alpha.strip(), w, h, lo), 'alpha': alpha, 'w': w, 'h': h, 'lo': lo, 'hi': hi, 'step': step})
        lo = hi
    return out


def execute(run):
    binary = build_driver()
    shards = []
    offsets = [(0, 0), (1, 0), (0, 1), (7, 3)]
    if run.tier == 'quick':
        widths = [0, 1, 2, 3, 4, 5, 7, 8, 13, 21, 34, 47, 59, 60]
        heights = [0, 1, 2, 3, 4, 5, 8, 13, 21, 29, 30]
        for si in range(len(STYLES)):
            for part in range(2):
                shards.append({'kind': 'boxes', 'name': 'boxes-%d-%d' % (si, part), 'style': si, 'widths': widths[part::2], 'heights': heights,
                               'offsets': offsets[:2] if part else offsets[2:]})
        shards += [{'kind': 'near', 'name': 'near-%d' % i, 'n': 4000} for i in range(16)]
        shards += [{'kind': 'rand', 'name': 'rand-%d' % i, 'n': 1500} for i in range(8)]
        shards += exh_shards(".'-| ", 3, 3, per=8192, step=3)
        shards += exh_shards("-|+ ", 3, 3, per=8192, step=3)
        run.extra_cov['exhaustive_scopes'] = ['every 3rd grid of 3x3 over {.,\',-,|,space} and over {-,|,+,space}']
    else:
        widths = list(range(0, 61))
        heights = list(range(0, 31))
        for si in range(len(STYLES)):
            for part in range(8):
                shards.append({'kind': 'boxes', 'name': 'boxes-%d-%d' % (si, part), 'style': si, 'widths': widths[part::8], 'heights': heights,
                               'offsets': offsets})
        shards += [{'kind': 'near', 'name': 'near-%d' % i, 'n': 20000} for i in range(32)]
        shards += [{'kind': 'rand', 'name': 'rand-%d' % i, 'n': 20000} for i in range(16)]
        shards += exh_shards(".'-| ", 3, 3, per=32768)
        shards += exh_shards("-|+ ", 3, 3, per=32768)
        shards += exh_shards(".'-| ", 4, 3, per=16384, step=601)
        shards += exh_shards("-|+ ", 4, 3, per=16384, step=61)
        shards += exh_shards("+.'-| ", 3, 3, per=32768, step=5)
        shards += exh_shards(",`-|. ", 3, 3, per=32768, step=11)
        run.extra_cov['exhaustive_scopes'] = ['boxes: all interior widths 0..60 x heights 0..30 x 4 offsets x 7 corner styles (edge style, dashes, labels random per box)',
                                              'all 3x3 grids over {.,\',-,|,space} and over {-,|,+,space}; every 5th/11th over {+,.,\',-,|,space} / {,,`,-,|,.,space}']
    run.run_shards(binary, shards)


if __name__ == '__main__':
    sys.exit(main(sys.modules[__name__]))
