"""C07 - conversion is deterministic and stateless.

Oracle: all observations of one key (input, settings, entry point) must be byte-identical to the reference,
which is the output of a single-threaded warm process. Observations come from: repetitions inside one
process (the hook shows whether the HashMap iteration order actually varied), fresh processes (independent
RandomState seeds), arbitrary preceding histories, threads racing on the very first (table-initialising)
calls with and without an injected delay inside the initialisers. Thorough: the race workload under
ThreadSanitizer and the tiny first-use workload under Miri with several schedule seeds.
"""
import hashlib
import os
import re
import struct
import subprocess
import sys
import time

import gen
from vlib import (BuildError, Driver, HARNESS, TARGET, WORK, _run_build, build_driver, driver_info, key_of, log, main, rng_for)

ID = 'C07'
LEVEL = 'exploration'
CONFIRM = False
RULE = ('a corpus of documents (random grids over the full alphabet, bundled diagrams with legends, quoted text, circles) x entry '
        'points x settings that differ from call to call (background, fill colour, scale), converted repeatedly in fresh processes in shuffled orders, and by 1..16 threads released together in '
        'fresh processes (first-use race, with and without a delay inside the table initialisers); non-trivial = distinct '
        '(process, thread, key) observation compared against the reference')
ASSUMPTIONS = ['schedules are sampled by stress and injected delays, not enumerated',
               'the reference is the first single-threaded process; a difference between any two observations shows up against it']
FLOORS = {'quick': {'processes': 8, 'race_processes': 10, 'inputs_order_varied': 20, 'distinct_init_winners': 3},
          'thorough': {'processes': 32, 'race_processes': 60, 'inputs_order_varied': 40, 'distinct_init_winners': 6}}


def corpus(seed, n, circles):
    rng = rng_for(seed, ID, 'corpus')
    docs = []
    for name, rows in gen.bundled(strip_legend=False):
        docs.append('\n'.join(rows[:60]) + '\n')
        s = open(os.path.join(gen.REPO, 'crates/svgbob/test_data', name), encoding='utf-8').read()
        if len(s) < 12000:
            docs.append(s)
    for k in range(6):
        # many separate groups on one page (parallel or batched processing must not reorder anything)
        toks = ['-->', 'ab', '+-+', '()', '*', 'o-', '/', 'x y'.split()[0], '.-.', 'k9']
        rows = []
        for y in range(rng.randint(12, 30)):
            rows.append(''.join(rng.choice(toks).ljust(6) for _ in range(rng.randint(8, 16))).rstrip())
            rows.append('')
        docs.append(gen.text_of(rows))
    while len(docs) < n:
        q = rng.random()
        if q < 0.15:
            # several class tags on one shape: the order of the classes must not depend on a hash seed
            rows = gen.tagged_shape(rng)
        elif q < 0.6:
            rows = gen.random_grid(rng, gen.FULL + '日"{}', wmax=16, hmax=8)
        else:
            kind, rows = gen.diagram(rng, circles, allow_quotes=True, allow_braces=True)
        d = gen.text_of(rows)
        if rng.random() < 0.2:
            d += '# Legend:\na = {fill:red}\nb = {stroke:blue}\n'
        docs.append(d)
    keys = []
    plain = [d for d in docs[:n] if '"' not in d and '# Legend:' not in d and '\x1e' not in d]
    colors = ['white', 'black', 'navy', 'orange', '#abc', 'red']
    for i, d in enumerate(docs[:n]):
        if i % 7 == 3 and plain and '"' not in d and '# Legend:' not in d:
            # entry 6: a CellBuffer that held another document before; must equal the plain conversion of d
            keys.append((6, rng.choice(plain) + '\x1e' + d, 'white', 'black', 8.0))
        elif i % 2:
            keys.append((i % 3, d, 'white', 'black', 8.0))   # entries 0,1,2: the settings are the defaults
        else:
            # the settings entry point with settings that differ from call to call
            keys.append((rng.choice([3, 3, 5]), d, rng.choice(colors), rng.choice(colors), rng.choice([8.0, 8.0, 1.0, 20.0])))
    return keys


def write_corpus(path, keys):
    with open(path, 'wb') as f:
        for entry, d, bg, fill, scale in keys:
            for i, t in enumerate((d, bg, fill)):
                b = t.encode('utf-8')
                f.write((struct.pack('<I', entry) if i == 0 else b'') + struct.pack('<I', len(b)) + b)
            f.write(struct.pack('<f', scale))


def read_race(path):
    data = open(path, 'rb').read()
    pos = 0
    out = []
    init = ''
    while pos < len(data):
        t, i, st, n = struct.unpack_from('<IIBI', data, pos)
        pos += 13
        body = data[pos:pos + n]
        pos += n
        if t == 0xffffffff:
            init = body.decode()
        else:
            out.append((t, i, st, body))
    return out, [tuple(l.split(' ', 2)) for l in init.split('\n') if l]


def digest(b):
    return hashlib.sha256(b).hexdigest()[:16]


def run_shard(ctx, shard):
    keys = ctx.extra['keys']
    ref = ctx.extra['ref']
    rng = rng_for(ctx.seed, ID, shard['name'])
    if shard['kind'] == 'proc':
        # a fresh process with its own hash seeds; shuffled order = an arbitrary preceding history
        if ctx.drv is not None:
            ctx.drv.restart()
        order = list(range(len(keys)))
        orders_seen = {}
        for rep in range(shard['reps']):
            rng.shuffle(order)
            for i in order:
                entry, doc, bg, fill, scale = keys[i]
                r = ctx.conv(doc, entry=entry, flags=7, bg=bg, fill=fill, scale=scale)
                ctx.note(key_of(shard['name'], rep, i), True)
                if r.prop_cells_max >= 6:
                    orders_seen.setdefault(i, set()).add(r.prop_order_hash)
                out = r.out.encode('utf-8', 'surrogateescape') if r.ok else b'PANIC ' + r.out.encode()
                if out != ref[i]:
                    ctx._violation({'doc': doc, 'entry': entry, 'bg': bg, 'fill': fill, 'scale': scale, 'where': shard['name'], 'repetition': rep},
                                   'output differs from the reference process (digest %s vs %s) in %s, repetition %d, after a history of %d conversions%s' % (
                                       digest(out), digest(ref[i]), shard['name'], rep, ctx.calls, first_diff(ref[i], out)))
        ctx.tag('processes')
        ctx.extra.setdefault('varied', set())
        varied = [i for i, hs in orders_seen.items() if len(hs) >= 2]
        ctx.tag('order_varied_observations', len(varied))
        ctx.samples.append({'process': shard['name'], 'inputs_with_varying_hashmap_order': len(varied), 'of_inputs_with_6_cells': len(orders_seen)})
        ctx.maxi('inputs_order_varied_in_one_process', len(varied))
        return
    # race: fresh process, T threads released together
    T = shard['threads']
    out_path = os.path.join(WORK, 'race-%s-%d.bin' % (shard['name'], os.getpid()))
    env = dict(os.environ)
    env.pop('RUST_BACKTRACE', None)
    if shard.get('delay'):
        env['SVGBOB_VERIF_DELAY'] = str(shard['delay'])
    env.update(shard.get('env', {}))
    binary = shard.get('binary') or ctx.binary
    try:
        cpath = ctx.extra['small_corpus_path'] if shard.get('small') else ctx.extra['corpus_path']
        if shard.get('tiny'):
            cpath = ctx.extra['tiny_corpus_path']
            keys, ref = ctx.extra['tiny_keys'], ctx.extra['tiny_ref']
        p = subprocess.run([binary, 'race', str(T), cpath, out_path, str(shard.get('reps', 1))], env=env, stdout=subprocess.DEVNULL,
                           stderr=subprocess.PIPE, timeout=1800)
    except subprocess.TimeoutExpired:
        ctx.inconclusive['race process watchdog'] += 1
        return
    if p.returncode not in (0, 66) or not os.path.exists(out_path):
        ctx._violation({'race_threads': T, 'delay': shard.get('delay')}, 'race process died with status %s: %s' % (p.returncode, p.stderr.decode('utf-8', 'replace')[-800:]))
        return
    res, init = read_race(out_path)
    os.unlink(out_path)
    ctx.tag('race_processes')
    ctx.tag('race_threads_%d' % T)
    winners = set(w for _, _, w in init)
    for w in winners:
        ctx.tag('init_winner_' + w)
    ctx.tag('tables_initialised', len(init))
    ctx.samples.append({'race': shard['name'], 'threads': T, 'delay_us': shard.get('delay', 0), 'init_log': ['%s:%s' % (t, w) for _, t, w in init][:20]})
    for (t, i, st, body) in res:
        ctx.note(key_of(shard['name'], t, i), True)
        out = body if st == 0 else b'PANIC ' + body
        if out != ref[i]:
            entry, doc, bg, fill, scale = keys[i]
            ctx._violation({'doc': doc, 'entry': entry, 'bg': bg, 'fill': fill, 'scale': scale, 'where': shard['name'], 'thread': t},
                           'thread %d of %d racing on first use returned a different document (digest %s vs %s)%s' % (t, T, digest(out), digest(ref[i]), first_diff(ref[i], out)))
    if shard.get('tsan_log'):
        pass


def first_diff(a, b):
    n = min(len(a), len(b))
    for k in range(n):
        if a[k] != b[k]:
            return '; first difference at byte %d: %r vs %r' % (k, a[max(0, k - 30):k + 30], b[max(0, k - 30):k + 30])
    return '; lengths %d vs %d' % (len(a), len(b))


def check_case(ctx, case):
    """replay: the stored document again, in 4 fresh processes x 5 repetitions"""
    outs = set()
    for p in range(4):
        d = Driver(ctx.binary)
        for rep in range(5):
            if rep % 2:
                d.conv('+-+\n', entry=3, flags=7, bg='pink', fill='green')   # an unrelated conversion in between
            r = d.conv(case['doc'], entry=case.get('entry', 0), flags=7, bg=case.get('bg', 'white'), fill=case.get('fill', 'black'), scale=case.get('scale', 8.0))
            outs.add(r.out)
        d.close()
    if len(outs) > 1:
        return '%d different outputs for the same input' % len(outs)
    return None


def tsan_leg(run, extra, keys):
    tdir = os.path.join(TARGET, 'tsan')
    env = {'RUSTFLAGS': '-Zsanitizer=thread', 'RUSTUP_TOOLCHAIN': 'nightly'}
    cmd = ['cargo', '+nightly', 'build', '--offline', '--release', '-Zbuild-std', '--target', 'x86_64-unknown-linux-gnu', '--target-dir', tdir]
    try:
        _run_build(cmd, HARNESS, env_extra=env, what='TSan driver build')
    except BuildError as e:
        run.inconclusive['TSan build failed: %s' % str(e)[-400:]] += 1
        return
    binary = os.path.join(tdir, 'x86_64-unknown-linux-gnu', 'release', 'svgbob-verif-driver')
    logbase = os.path.join(WORK, 'tsan-log')
    for f in os.listdir(WORK):
        if f.startswith('tsan-log'):
            os.unlink(os.path.join(WORK, f))
    small = os.path.join(WORK, 'c07-corpus-tsan.bin')
    write_corpus(small, keys[:40])
    ex = dict(extra)
    ex['corpus_path'] = small
    ex['keys'] = keys[:40]
    shards = []
    for rep in range(3):
        for T in (2, 4, 8, 16):
            for delay in (0, 200):
                shards.append({'kind': 'race', 'name': 'tsan-%d-%d-%d' % (T, delay, rep), 'threads': T, 'delay': delay, 'binary': binary,
                               'env': {'TSAN_OPTIONS': 'halt_on_error=0 log_path=%s exitcode=66' % logbase}})
    run.run_shards(binary, shards, extra=ex, workers=4)
    # reports count only if a frame lies in the code under test or in once_cell
    own = other = 0
    blocks = []
    for f in os.listdir(WORK):
        if f.startswith('tsan-log'):
            txt = open(os.path.join(WORK, f), errors='replace').read()
            for blk in txt.split('==================')[1:]:
                if 'WARNING: ThreadSanitizer' not in blk:
                    continue
                if re.search(r'(?<![\w-])svgbob::|once_cell::', blk):
                    own += 1
                    blocks.append(blk[:1500])
                else:
                    other += 1
    run.extra_cov['tsan'] = {'race_processes': len(shards), 'reports_in_code_under_test': own, 'tsan_reports_outside_code_under_test': other}
    for blk in blocks[:3]:
        run.violations.append({'case': {'tsan': 'race workload'}, 'message': 'ThreadSanitizer report with a frame in svgbob/once_cell:\n' + blk, 'signature': None})
        run.nviol += 1


def execute(run):
    binary = build_driver()
    info = driver_info(binary)
    quick = run.tier == 'quick'
    keys = corpus(run.seed, 150 if quick else 300, info['circles'])
    os.makedirs(WORK, exist_ok=True)
    cpath = os.path.join(WORK, 'c07-corpus.bin')
    write_corpus(cpath, keys)
    # the reference: one single-threaded warm process
    d = Driver(binary)
    d.conv('+\n')
    ref = []
    for entry, doc, bg, fill, scale in keys:
        # every key of the reference is converted in its own fresh process: no history at all
        if entry >= 3:
            d.restart()
        if entry == 6:
            # the reference of an edited buffer is the plain conversion of the second document
            r = d.conv(doc.split('\x1e', 1)[1], entry=3, flags=7, bg=bg, fill=fill, scale=scale)
        elif entry == 5:
            # the reference of a buffer that was rendered before with other settings is the plain conversion
            r = d.conv(doc, entry=3, flags=7, bg=bg, fill=fill, scale=scale)
        else:
            r = d.conv(doc, entry=entry, flags=7, bg=bg, fill=fill, scale=scale)
        ref.append(r.out.encode('utf-8', 'surrogateescape') if r.ok else b'PANIC ' + r.out.encode())
    d.close()
    # the first 12 keys once more as a corpus of their own: many threads, few keys, every key twice in a row
    spath = os.path.join(WORK, 'c07-corpus-small.bin')
    write_corpus(spath, keys[:12])
    # four tiny documents through to_svg, each converted ~1000 times in a row by every thread: a thread that
    # repeats an input while the others convert different ones
    tiny = [(0, '+-+\n', 'white', 'black', 8.0), (0, 'ab\n', 'white', 'black', 8.0), (0, '-->\n', 'white', 'black', 8.0), (0, '()\n', 'white', 'black', 8.0)]
    tpath = os.path.join(WORK, 'c07-corpus-tiny.bin')
    write_corpus(tpath, tiny)
    tiny_ref = []
    d = Driver(binary)
    for entry, doc, bg, fill, scale in tiny:
        tiny_ref.append(d.conv(doc, entry=0, flags=7).out.encode())
    d.close()
    extra = {'keys': keys, 'ref': ref, 'corpus_path': cpath, 'small_corpus_path': spath, 'tiny_corpus_path': tpath, 'tiny_keys': tiny, 'tiny_ref': tiny_ref}
    shards = [{'kind': 'proc', 'name': 'process-%d' % i, 'reps': 5 if quick else 20} for i in range(8 if quick else 32)]
    for rep in range(2 if quick else 8):
        for T in (1, 2, 4, 8, 16):
            for delay in (0, 300) if quick else (0, 100, 2000):
                shards.append({'kind': 'race', 'name': 'race-T%d-d%d-%d' % (T, delay, rep), 'threads': T, 'delay': delay})
    for rep in range(2 if quick else 8):
        for T in (4, 16):
            shards.append({'kind': 'race', 'name': 'race-small-T%d-%d' % (T, rep), 'threads': T, 'delay': 0, 'small': True, 'reps': 40})
    for rep in range(3 if quick else 12):
        for T in (8, 16):
            shards.append({'kind': 'race', 'name': 'race-tiny-T%d-%d' % (T, rep), 'threads': T, 'delay': 0, 'tiny': True, 'reps': 1000})
    run.run_shards(binary, shards, extra=extra, workers=8)
    winners = [k for k in run.tags if k.startswith('init_winner_')]
    run.tags['distinct_init_winners'] = len(winners)
    run.tags['inputs_order_varied'] = int(run.maxima.get('inputs_order_varied_in_one_process', 0))
    if run.tags['inputs_order_varied'] == 0 and run.tags.get('processes', 0) >= 8:
        # not one input was visited in two different orders in any process: the tree under test visits the
        # property cells in a fixed order (std's HashMap would vary with every map instance), so there is no
        # order to vary; the byte comparison across processes stands on its own
        run.floors_not_applicable = {'inputs_order_varied': 'no input was visited in two different orders in any of the processes'}
        run.extra_cov['floors_not_applicable'] = run.floors_not_applicable
    run.extra_cov['corpus_documents'] = len(keys)
    if not quick:
        tsan_leg(run, extra, keys)
        import c01
        c01.miri_leg(run, list(range(100, 108)))


if __name__ == '__main__':
    sys.exit(main(sys.modules[__name__]))
