"""C18 - settings switches and entry points are consistent and leave geometry alone.

Oracle: with G = scene without style/defs/backdrop: G is identical across the 8 switch combinations, across
colour/font/stroke settings and override sizes; each switch adds or removes exactly its element; the style sheet
carries the settings; an override changes only the root and backdrop size; to_svg == pretty == with default
settings byte for byte; compressed == pretty without inter-element white space (tree comparison).
"""
import sys

import gen
from vlib import F, Malformed, Scene, build_driver, driver_info, key_of, main, multiset_match, rng_for, show_el, xml_tree

ID = 'C18'
LEVEL = 'exploration'
RULE = ('documents of the mixed corpus (optionally with a legend) x the 8 include_* sets x random css-safe colour/font/stroke '
        'strings x override sizes x the five entry points; non-trivial = distinct (document, settings) with at least one drawn element')
ASSUMPTIONS = ['setting strings are css-safe (letters, digits, #, (), commas, blanks): what hostile setting strings do is not part of the property']
FLOORS = {'quick': {'distinct_nontrivial': 500, 'with_legend': 100},
          'thorough': {'distinct_nontrivial': 10000, 'with_legend': 2000}}
COLORS = ['black', 'white', 'red', '#abc', '#102030', 'rgb(1,2,3)', 'navy', 'pink']
FONTS = ['Arial', 'monospace', 'Iosevka Fixed, monospace', 'Foo Bar, serif']
# "random colour/font/stroke strings": any text a caller may hand over (the CLI passes its arguments through)
STRING_TOKENS = ['<', '>', '&', '"', "'", ';', '{', '}', '</style>', '<rect x="0" y="0" width="9" height="9"/>', ']]>', '/*', '*/', '\u00e9', '\u65e5',
                 ' ', ',', '\\', 'a', 'Z', '0', '#', '(', ')', '&amp;', '&#60;', '<!--', '-->', '<?x?>', 'url(x)', '!important', ':']


def random_string(rng):
    s = ''.join(rng.choice(STRING_TOKENS) for _ in range(rng.randint(1, 6))).strip()
    return s or rng.choice(['"', "'", '<'])


def tree(doc):
    def rec(e):
        kids = tuple(rec(c) for c in e.kids)
        txt = e.text if not kids else e.text.strip()
        return (e.ns, e.name, tuple(sorted(e.attrs.items())), txt, kids)
    return rec(xml_tree(doc))


def check_case(ctx, case):
    s = case['input']
    st = case['settings']
    o0 = ctx.conv(s, entry=0)
    o1 = ctx.conv(s, entry=1)
    o2 = ctx.conv(s, entry=2)
    o3 = ctx.conv(s, entry=3, flags=7)
    for r in (o0, o1, o2, o3):
        if not r.ok:
            return 'conversion failed: ' + r.fail_text()
    if not (o0.out == o1.out == o3.out):
        return 'to_svg, to_svg_string_pretty and to_svg_with_settings(default) differ'
    try:
        if tree(o1.out) != tree(o2.out):
            return 'the compressed form is not the pretty form without inter-element white space'
        base = Scene(o1.out)
        ctx.note(key_of(s, sorted(st.items())), bool(base.els), 'with_legend' if '# Legend:' in s else 'no_legend')
        G = None
        for fl in range(8):
            r = ctx.conv(s, entry=3, flags=fl, **st)
            if not r.ok:
                return 'conversion failed: ' + r.fail_text()
            sc = Scene(r.out)
            if (len(sc.style), len(sc.defs), len(sc.backdrop)) != ((fl >> 1) & 1, (fl >> 2) & 1, fl & 1):
                return 'switch set %d: style/defs/backdrop elements = %r' % (fl, (len(sc.style), len(sc.defs), len(sc.backdrop)))
            kids = [k.name for k in sc.root.kids]
            others = [k for k in kids if k not in ('style', 'defs', 'rect', 'line', 'path', 'circle', 'polygon', 'text', 'g')]
            if others:
                return 'unexpected elements %r' % others
            if fl & 1:
                bd = sc.backdrop[0].attrs
                if (F(bd['width']), F(bd['height']), F(bd['x']), F(bd['y'])) != (sc.W, sc.H, 0, 0):
                    return 'backdrop %r does not cover the canvas %sx%s' % (bd, sc.W, sc.H)
            if fl & 2:
                css = sc.style[0].text
                for needle in ('stroke: %s' % st['sc'], 'fill: %s' % st['fill'], 'fill: %s' % st['bg'], 'font-family: %s' % st['ff'],
                               'font-size: %dpx' % st['fs']):
                    if needle not in css:
                        return 'style sheet lacks %r' % needle
            r5 = ctx.conv(s, entry=5, flags=fl, ow=3.0, **st)
            if not r5.ok or r5.out != r.out:
                return 'switch set %d: a CellBuffer that was rendered before with other settings renders differently from a fresh one' % fl
            g = (sc.W, sc.H, sc.sorted())
            if G is None:
                G = g
                if g != (base.W, base.H, base.sorted()):
                    return 'colour/font/stroke settings change the geometry'
            elif g != G:
                return 'switch set %d changes the geometry' % fl
            # the overridden size: the case's own and, for every other document, exactly the size the library
            # computes (a caller handing the size it got from an earlier call back, e.g. on redraw)
            sizes = [(case['ow'], case['oh'])]
            if case.get('handback', True):
                sizes.append((float(sc.W), float(sc.H)))
            for (ow_, oh_) in sizes:
                case = dict(case, ow=ow_, oh=oh_)
                ro = ctx.conv(s, entry=4, flags=fl, ow=case['ow'], oh=case['oh'], **st)
                if not ro.ok:
                    return 'conversion failed: ' + ro.fail_text()
                so = Scene(ro.out)
                if abs(so.W - F(repr(case['ow']))) > F(1, 100) or abs(so.H - F(repr(case['oh']))) > F(1, 100):
                    return 'override size: root is %sx%s, asked %sx%s' % (so.W, so.H, case['ow'], case['oh'])
                if so.sorted() != G[2]:
                    return 'override size changes the geometry'
                if (len(so.style), len(so.defs), len(so.backdrop)) != ((fl >> 1) & 1, (fl >> 2) & 1, fl & 1):
                    return 'override size, switch set %d: style/defs/backdrop elements wrong' % fl
                if fl & 1:
                    bd = so.backdrop[0].attrs
                    if (F(bd['width']), F(bd['height'])) != (so.W, so.H):
                        return 'override size: backdrop %r is not the overridden size' % bd
                if fl & 2 and so.style[0].text != sc.style[0].text:
                    return 'override size changes the style sheet'
            ctx.tag('override_with_the_computed_size')
        # every look setting varied alone against the call before it: the style sheet must follow each of them
        prev = dict(st)
        ctx.conv(s, entry=3, flags=7, **prev)
        for field, alt in (('fs', prev['fs'] + 7), ('ff', 'Courier New, ' + prev['ff']), ('fill', 'teal'), ('bg', 'ivory'), ('sc', 'maroon'), ('sw', prev['sw'] + 1.5)):
            cur = dict(prev)
            cur[field] = alt
            r = ctx.conv(s, entry=3, flags=7, **cur)
            if not r.ok:
                return 'conversion failed: ' + r.fail_text()
            css = Scene(r.out).style[0].text
            sw = cur['sw']
            needles = ['stroke: %s' % cur['sc'], 'fill: %s' % cur['fill'], 'fill: %s' % cur['bg'], 'font-family: %s' % cur['ff'], 'font-size: %dpx' % cur['fs'],
                       'stroke-width: %s' % (int(sw) if sw == int(sw) else sw)]
            for needle in needles:
                if needle not in css:
                    return 'after changing only %s to %r (previous call: %r) the style sheet lacks %r' % (field, alt, prev[field], needle)
            prev = cur
        # and back to the defaults through the default entry point
        r = ctx.conv(s, entry=0)
        if r.out != o0.out:
            return 'to_svg returns a different document after conversions with other settings'
    except Malformed as e:
        return 'output not parseable: %s' % e
    return None


def run_shard(ctx, shard):
    rng = rng_for(ctx.seed, ID, shard['name'])
    circles = ctx.extra['circles']
    for i in range(shard['n']):
        kind, rows = gen.diagram(rng, circles, allow_quotes=True, allow_braces=True)
        if rng.random() < 0.1:
            # nothing but quoted text (no ordinary cell at all)
            rows = rng.choice([['"hello world"'], ['"-->|<-- not a diagram"', '  "second line"'], ['', '   "q"'], ['"a" "b"   "c"']])
        s = gen.text_of(rows)
        if rng.random() < 0.05:
            # a document that starts with a byte order mark or another invisible character (files saved by some editors)
            s = rng.choice(['\ufeff', '\ufeff\ufeff', '\u200b', '\u00a0', '\u2060', '\r\n', '\x0c']) + s
            ctx.tag('documents_with_invisible_first_character')
        if rng.random() < 0.3:
            s += '# Legend:\na = {fill:red}\nbig = {stroke: blue}\n'
        st = {'fill': rng.choice(COLORS), 'bg': rng.choice(COLORS), 'sc': rng.choice(COLORS), 'ff': rng.choice(FONTS),
              'fs': rng.choice([8, 10, 14, 30, 0, 200]), 'sw': rng.choice([1.0, 2.0, 2.5, 0.25, 0.0, 16.0, 16.5, 33.0, 100.0])}
        if rng.random() < 0.25:
            for f in ('fill', 'bg', 'sc', 'ff'):
                if rng.random() < 0.6:
                    st[f] = random_string(rng)
            ctx.tag('arbitrary_setting_strings')
        case = {'input': s, 'settings': st, 'ow': rng.choice([123.0, 77.5, 1.0, 4096.0, 0.5]), 'oh': rng.choice([77.5, 16.0, 1000.0, 0.25])}
        ctx.run_case(case)
        if i == 0:
            ctx.sample(case)


def concurrent_leg(run, binary, nproc):
    """the entry points must also agree while several threads convert different documents at once"""
    import os
    import subprocess
    import c07
    from vlib import WORK, Driver
    docs = ['+-+\n', 'ab\n', '-->\n', '()\n', '.-.\n| |\n\'-\'\n', '{a}\n']
    keys = []
    for d in docs:
        for entry in (0, 1, 3):
            keys.append((entry, d, 'white', 'black', 8.0))
    os.makedirs(WORK, exist_ok=True)
    cpath = os.path.join(WORK, 'c18-corpus.bin')
    c07.write_corpus(cpath, keys)
    drv = Driver(binary)
    want = [drv.conv(d, entry=1).out.encode() for (e, d, _, _, _) in keys]
    drv.close()
    env = dict(os.environ)
    env.pop('RUST_BACKTRACE', None)
    procs = []
    for k in range(nproc):
        out = os.path.join(WORK, 'c18-race-%d.bin' % k)
        procs.append((out, subprocess.Popen([binary, 'race', str((8, 16)[k % 2]), cpath, out, '400'], env=env, stdout=subprocess.DEVNULL, stderr=subprocess.PIPE)))
    n = 0
    for out, p in procs:
        try:
            p.communicate(timeout=900)
        except subprocess.TimeoutExpired:
            p.kill()
            run.inconclusive['race process watchdog'] += 1
            continue
        if p.returncode != 0 or not os.path.exists(out):
            run.violations.append({'case': {'concurrent': 'entry points'}, 'signature': None, 'message': 'the process converting concurrently died with status %s' % p.returncode})
            run.nviol += 1
            continue
        res, _ = c07.read_race(out)
        os.unlink(out)
        for (t, i, st, body) in res:
            n += 1
            if st != 0 or body != want[i]:
                run.violations.append({'case': {'input': keys[i][1], 'settings': {}, 'concurrent_entry': keys[i][0]}, 'signature': None,
                                       'message': 'entry point %d returned a document that differs from to_svg_string_pretty of the same text while other threads were converting other texts' % keys[i][0]})
                run.nviol += 1
                if run.nviol > 10:
                    break
    run.evals += n
    run.tags['concurrent_observations'] += n


def execute(run):
    binary = build_driver()
    info = driver_info(binary)
    extra = {'circles': info['circles']}
    n = 250 if run.tier == 'quick' else 1200
    k = 16 if run.tier == 'quick' else 32
    run.run_shards(binary, [{'name': 's-%d' % i, 'n': n} for i in range(k)], extra=extra)
    concurrent_leg(run, binary, 4 if run.tier == 'quick' else 16)


if __name__ == '__main__':
    sys.exit(main(sys.modules[__name__]))
