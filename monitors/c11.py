"""C11 - the scale setting scales every length and nothing else.

Metamorphic oracle: scene(x, scale f) with every length divided by f == scene(x, scale 1) (kinds, classes,
flags, text exact; numbers within 1e-3 cell), plus the absolute anchor: at scale 8 a one-cell '-' is 8 wide
and a one-cell '|' is 16 high.
"""
import sys

import gen
from vlib import F, Malformed, Scene, build_driver, driver_info, key_of, main, multiset_match, rng_for, show_el

ID = 'C11'
LEVEL = 'exploration'
RULE = ('diagrams of the mixed corpus (random grids, bundled windows, boxes sharp/rounded, circles, arcs, arrows, bullets, '
        'quoted text) x scales {0.5,1,3,8,10,20,37.5} compared against scale 1; non-trivial = distinct (diagram, scale != 1) '
        'with at least one drawn element')
ASSUMPTIONS = ['numbers may differ by 1e-3 cell after dividing by the factor (f32 products and decimal printing)']
FLOORS = {'quick': {'distinct_nontrivial': 2000, 'line': 100, 'rect': 100, 'circle': 100, 'path': 100, 'polygon': 100, 'text': 100,
                    'g_line': 100, 'g_path': 100},
          'thorough': {'distinct_nontrivial': 40000, 'line': 2000, 'rect': 2000, 'circle': 2000, 'path': 2000, 'polygon': 1000, 'text': 2000,
                       'g_line': 2000, 'g_path': 2000}}
SCALES = [0.5, 1.0, 3.0, 8.0, 10.0, 20.0, 37.5]
# beyond the values the property names: settings that are not a multiple of 1/2 (what `--scale 1.2` or `1.025` gives)
ODD_SCALES = [9.6, 8.2, 7.2, 10.4, 0.3, 1.3]


def f32(x):
    """the value the driver (and svgbob) actually computes with"""
    import struct
    return struct.unpack('<f', struct.pack('<f', x))[0]
TOL = F(1, 1000)


def check_case(ctx, case):
    rows, sc = case['rows'], case['scale']
    s = gen.text_of(rows)
    flags = case.get('flags', 0)
    r1 = ctx.conv(s, scale=1.0, flags=flags)
    r2 = ctx.conv(s, scale=sc, flags=flags)
    if not (r1.ok and r2.ok):
        return 'conversion failed: ' + (r1.fail_text() if not r1.ok else r2.fail_text())
    try:
        a = Scene(r1.out)
        b = Scene(r2.out, sc=F(f32(sc)))
    except Malformed as e:
        return 'output not parseable: %s' % e
    ctx.note(key_of(rows, sc), sc != 1.0 and bool(a.els), *sorted(gen.kinds_in(a)))
    if abs(b.W / F(f32(sc)) - a.W) > TOL or abs(b.H / F(f32(sc)) - a.H) > TOL:
        return 'canvas %sx%s at scale %s is not %s times %sx%s' % (b.W, b.H, sc, sc, a.W, a.H)
    if flags & 1:
        if len(a.backdrop) != 1 or len(b.backdrop) != 1:
            return 'backdrop missing'
        for k in ('width', 'height'):
            if abs(F(b.backdrop[0].attrs[k]) / F(f32(sc)) - F(a.backdrop[0].attrs[k])) > TOL:
                return 'backdrop %s not scaled' % k
    if case.get('reuse'):
        # the same scale through a CellBuffer that was rendered at another scale before
        r3 = ctx.conv(s, entry=5, scale=sc, flags=flags, ow=case['reuse'])
        if not r3.ok:
            return 'conversion failed: ' + r3.fail_text()
        if r3.out != r2.out:
            c = Scene(r3.out, sc=F(f32(sc)))
            u1, u2 = multiset_match(b.els, c.els, F(0))
            return 'a CellBuffer rendered at scale %s after a render at scale %s differs from a fresh one: fresh only %s; reused only %s' % (
                sc, case['reuse'], [show_el(e) for e in u1[:3]], [show_el(e) for e in u2[:3]])
        ctx.tag('reused_buffer_renders')
    if case.get('zoom'):
        # the two step path with fragments the caller zoomed before handing them back: the scale setting still
        # multiplies every length (the zoom factor may coincide with the scale, which is what a caller who
        # "pre-scales" the fragments would pass)
        z = case['zoom']
        r4 = ctx.conv(s, entry=9, scale=1.0, flags=flags, ow=z)
        r5 = ctx.conv(s, entry=9, scale=sc, flags=flags, ow=z)
        if not (r4.ok and r5.ok):
            return 'conversion of zoomed fragments failed: ' + (r4.fail_text() if not r4.ok else r5.fail_text())
        try:
            za = Scene(r4.out, sc=F(f32(z)))
            zb = Scene(r5.out, sc=F(f32(z)) * F(f32(sc)))
        except Malformed as e:
            return 'output not parseable: %s' % e
        ctx.tag('zoomed_fragment_renders')
        if z == sc:
            ctx.tag('zoom_equals_scale')
        u1, u2 = multiset_match(za.els, zb.els, TOL)
        if u1 or u2:
            return 'fragments zoomed by %s: scale %s changes more than lengths: at scale 1 only %s; at scale %s (divided) only %s' % (
                z, sc, [show_el(e) for e in u1[:3]], sc, [show_el(e) for e in u2[:3]])
    ua, ub = multiset_match(a.els, b.els, TOL)
    if ua or ub:
        return 'scale %s changes more than lengths: at scale 1 only %s; at scale %s (divided) only %s' % (
            sc, [show_el(e) for e in ua[:3]], sc, [show_el(e) for e in ub[:3]])
    return None


def anchor_check(ctx):
    """At the default scale one character cell measures 8 by 16 units"""
    for doc, want in [('-\n', ('line', ('solid',), F(0), F(8), F(8), F(8))), ('|\n', ('line', ('solid',), F(4), F(0), F(4), F(16)))]:
        for entry in (0, 1, 3):
            r = ctx.conv(doc, entry=entry, flags=7, scale=8.0)
            sc = Scene(r.out)
            ctx.note(key_of('anchor', doc, entry), True, 'anchor')
            if sc.els != [want] or (sc.W, sc.H) != (16, 32):
                ctx._violation({'anchor': doc, 'entry': entry}, 'at the default scale %r renders as %s on %sx%s, expected %s on 16x32' % (
                    doc, [show_el(e) for e in sc.els], sc.W, sc.H, show_el(want)))


def run_shard(ctx, shard):
    rng = rng_for(ctx.seed, ID, shard['name'])
    circles = ctx.extra['circles']
    if shard.get('anchor'):
        anchor_check(ctx)
        for name, rows in gen.bundled_whole():
            for sc_ in (0.5, 8.0, 37.5):
                ctx.run_case({'rows': rows, 'scale': sc_, 'flags': 0})
            ctx.tag('bundled_documents')
    for i in range(shard['n']):
        kind, rows = gen.diagram(rng, circles, allow_quotes=True, allow_braces=True)
        if rng.random() < 0.25:
            # force grouped members: something touching, not endorsable
            extra = rng.choice([['.-->', '|'], ['*--.', "   '->"], ['+--', '| a', '+-'], ['o-.', '  )', " -'"], ['/-\\', '\\-/ x'], ['--> b', ' ^', ' |']])
            rows = list(rows) + [''] + extra
        case = {'rows': rows, 'scale': rng.choice(SCALES) if rng.random() < 0.85 else rng.choice(ODD_SCALES), 'flags': rng.choice([0, 0, 1, 7])}
        if rng.random() < 0.4:
            case['reuse'] = rng.choice([s_ for s_ in SCALES if s_ != case['scale']])
        if rng.random() < 0.25:
            case['zoom'] = case['scale'] if rng.random() < 0.5 else rng.choice([0.5, 2.0, 8.0, 16.0])
        ctx.run_case(case)
        if i == 0:
            ctx.sample(case)


def replay_case(ctx, case):
    if 'anchor' in case:
        n = len(ctx.violations)
        anchor_check(ctx)
        return ctx.violations[n]['message'] if len(ctx.violations) > n else None
    return check_case(ctx, case)


def execute(run):
    binary = build_driver()
    info = driver_info(binary)
    extra = {'circles': info['circles']}
    n = 2000 if run.tier == 'quick' else 6000
    k = 16 if run.tier == 'quick' else 32
    shards = [{'name': 'scale-%d' % i, 'n': n, 'anchor': i == 0} for i in range(k)]
    run.run_shards(binary, shards, extra=extra)


if __name__ == '__main__':
    sys.exit(main(sys.modules[__name__]))
