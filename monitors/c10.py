"""C10 - separated sub-diagrams render independently of each other.

Metamorphic oracle: scene(A + B [+ C]) == scene(A) + shift(scene(B)) [+ shift(scene(C))] as multisets, and the
canvas is the one covering all parts.
"""
import sys

import gen
from vlib import F, Malformed, Scene, build_driver, driver_info, key_of, main, multiset_match, rng_for, show_el

ID = 'C10'
LEVEL = 'exploration'
RULE = ('pairs and triples of legend-free, quote-free diagrams (a twelfth of the parts carries a {tag} inside an open or closed figure; random grids over the full alphabet, windows of the '
        'bundled diagrams, boxes, circles, diagonals, arrows) placed side by side or stacked with gaps of 1..3 blank columns/rows, '
        'in both orders; non-trivial = distinct composition in which at least two parts draw something')
ASSUMPTIONS = ['numbers may differ by 1e-3 cell; kinds, classes, flags and text must be equal']
FLOORS = {'quick': {'distinct_nontrivial': 4000, 'shape_on_each_side': 500},
          'thorough': {'distinct_nontrivial': 80000, 'shape_on_each_side': 10000}}
TOL = F(8, 1000)


def compose(parts, horizontal, gaps):
    """rows of the composition and the (dx, dy) of each part"""
    pos = []
    if horizontal:
        H = max(len(p) for p in parts)
        rows = [''] * H
        x = 0
        for i, p in enumerate(parts):
            w = gen.width_of(p)
            pos.append((x, 0))
            rows = gen.pad_rows(rows, x)
            for y in range(len(p)):
                rows[y] = rows[y] + p[y]
            x += w + (gaps[i] if i < len(gaps) else 0)
        return rows, pos
    rows = []
    for i, p in enumerate(parts):
        pos.append((0, len(rows)))
        rows += list(p)
        if i < len(gaps):
            rows += [''] * gaps[i]
    return rows, pos


def check_case(ctx, case):
    parts, horizontal, gaps = case['parts'], case['horizontal'], case['gaps']
    rows, pos = compose(parts, horizontal, gaps)
    rj = ctx.conv(gen.text_of(rows))
    if not rj.ok:
        return 'conversion failed: ' + rj.fail_text()
    if key_of(rows)[0] % 10 == 0 and not any('"' in r or '# Legend:' in r for r in rows):
        # "adding a drawing far away": one CellBuffer holds and renders the first part, is then edited to hold the
        # whole juxtaposition and rendered again (driver entry 6; quoted text cannot be carried by that path)
        r6 = ctx.conv(gen.text_of(parts[0]) + '\x1e' + gen.text_of(rows), entry=6)
        ctx.tag('juxtapositions_built_in_an_existing_buffer')
        if not r6.ok or r6.out != rj.out:
            return 'a buffer that rendered the first part and was then extended to the juxtaposition renders differently from the juxtaposition converted from text'
    try:
        joint = Scene(rj.out)
        exp = []
        W = H = F(0)
        drawing = 0
        shapes = 0
        for p, (dx, dy) in zip(parts, pos):
            r = ctx.conv(gen.text_of(p))
            if not r.ok:
                return 'conversion failed: ' + r.fail_text()
            s = Scene(r.out, dx=-8 * dx, dy=-16 * dy)
            exp += s.els
            drawing += 1 if s.els else 0
            shapes += 1 if any(e[0] in ('rect', 'circle') for e in s.els) else 0
            W = max(W, s.W + 8 * dx)
            H = max(H, s.H + 16 * dy)
    except Malformed as e:
        return 'output not parseable: %s' % e
    tags = ['horizontal' if horizontal else 'stacked', 'parts_%d' % len(parts)]
    if shapes >= 2:
        tags.append('shape_on_each_side')
    ctx.note(key_of(parts, horizontal, gaps), drawing >= 2, *tags)
    if (joint.W, joint.H) != (W, H):
        return 'canvas %sx%s, the canvas covering all parts is %sx%s' % (joint.W, joint.H, W, H)
    ua, ub = multiset_match(exp, joint.els, TOL)
    if ua or ub:
        return 'juxtaposition is not the union of the parts: missing %s; extra %s' % (
            [show_el(e) for e in ua[:3]], [show_el(e) for e in ub[:3]])
    return None


def run_shard(ctx, shard):
    rng = rng_for(ctx.seed, ID, shard['name'])
    circles = ctx.extra['circles']
    if shard['name'] == 'pairs-0':
        whole = [rows for name, rows in gen.bundled_whole() if name != 'long.bob']
        for i in range(len(whole)):
            a, b = whole[i], whole[(i + 1) % len(whole)]
            ctx.run_case({'parts': [a, b], 'horizontal': i % 2 == 0, 'gaps': [1 + i % 3]})
            ctx.tag('bundled_documents')
    if shard.get('edges'):
        # parts whose right-most / bottom-most occupied cells line up, with double-width characters at the edge
        for i in range(shard['n']):
            if i % 3 == 0:
                # a figure with a double-width character in its left-most column, one blank column right of a part
                # whose right-most column is occupied on every row
                kind, fig = gen.diagram(rng, circles, small=True) if rng.random() < 0.5 else ('circle', list(rng.choice(circles)))
                fig = gen.pad_rows(list(fig), gen.width_of(fig))
                y = rng.randrange(len(fig) + 1)
                wide = rng.choice(['\u4e00', '\uff57', '\u1100', '\u26a1'])
                if y == len(fig):
                    fig.append(wide)
                elif fig[y][:2] == '  ':
                    fig[y] = wide + fig[y][2:]
                else:
                    fig = [wide] + fig
                h = len(fig)
                left = [''.join(rng.choice('ab-|+ ') for _ in range(rng.randint(0, 4))) + rng.choice('abk|+') for _ in range(h)]
                w = max(len(r) for r in left)
                left = [r.rjust(w) for r in left]
                case = {'parts': [left, [r.rstrip() for r in fig]], 'horizontal': True, 'gaps': [rng.choice([1, 1, 2])]}
                ctx.run_case(case)
                ctx.tag('wide_character_at_left_edge')
                continue
            c = rng.randint(0, 9)
            parts = []
            for _ in range(rng.choice([2, 2, 3])):
                h = rng.randint(1, 3)
                rows = []
                for y in range(h):
                    row = ''.join(rng.choice("ab-|+ ") for _ in range(c))
                    if y == rng.randrange(h) or rng.random() < 0.5:
                        row += rng.choice(['日', '字', 'a', '-', '|', '>', '+', 'ｗ', '\u1100', '\u26a1'])
                    rows.append(row.rstrip() or rng.choice('a+'))
                parts.append(rows)
            case = {'parts': parts, 'horizontal': rng.random() < 0.3, 'gaps': [rng.randint(1, 3) for _ in range(len(parts) - 1)]}
            ctx.run_case(case)
            ctx.tag('edge_aligned_compositions')
            if i == 0:
                ctx.sample(case)
        return
    for i in range(shard['n']):
        k = 3 if rng.random() < 0.2 else 2
        parts = []
        for _ in range(k):
            if rng.random() < 0.02:
                # one part is a big page of many separate figures (size thresholds of the grouping code)
                kind, rows = 'page', gen.page(rng, rng.choice([20, 40, 70, 140]))
                ctx.tag('compositions_with_page')
            elif rng.random() < 0.08:
                # a figure carrying a {tag}: which element a tag styles is decided by comparing bounding boxes of
                # everything on the page (open figures: a slope's box encloses the tag; closed: a box with a tag)
                if rng.random() < 0.6:
                    kind, rows = 'annotated_open', gen.annotated_open(rng)
                else:
                    kind, rows = 'annotated_box', gen.tagged_shape(rng)
                ctx.tag('compositions_with_tagged_part')
            else:
                kind, rows = gen.diagram(rng, circles, small=True)
            # a part is a block: its own blank border rows/columns are kept as they are
            parts.append(rows)
        case = {'parts': parts, 'horizontal': rng.random() < 0.5, 'gaps': [rng.randint(1, 3) for _ in range(k - 1)]}
        ctx.run_case(case)
        if i == 0:
            ctx.sample(case)


def execute(run):
    binary = build_driver()
    info = driver_info(binary)
    extra = {'circles': info['circles']}
    n = 2000 if run.tier == 'quick' else 7000
    shards = [{'name': 'pairs-%d' % i, 'n': n} for i in range(16 if run.tier == 'quick' else 32)]
    shards += [{'name': 'edges-%d' % i, 'n': n // 4, 'edges': True} for i in range(4 if run.tier == 'quick' else 8)]
    run.run_shards(binary, shards, extra=extra)


if __name__ == '__main__':
    sys.exit(main(sys.modules[__name__]))
