"""C04 - every non-drawing character appears exactly once, as text, in its own cell.

Oracle: the display column map of each input row (a double-width character occupies two columns); every text
element is walked character by character through that map (anchor = sub-cell point q of its first cell);
every non-blank input character without drawing meaning must be covered by exactly one text element.
The list of drawing characters is read from the tree under test (driver `info`), not hard-coded.
"""
import itertools
import sys

import gen
from vlib import F, Malformed, Scene, build_driver, driver_info, cw, key_of, main, rng_for

ID = 'C04'
LEVEL = 'exploration'
RULE = ('rows of length 1..6 over {space, a, é, 日, -} enumerated exhaustively, alone and above a row of x (one span), and random '
        'grids up to 12x5 mixing ASCII / Latin-1 / Cyrillic / CJK labels with blanks and a few drawing characters; non-trivial = '
        'distinct input containing a multi-byte or double-width label next to a blank or a drawing character')
ASSUMPTIONS = ['width-1 and width-2 characters only (python unicodedata east_asian_width W/F = 2 columns, as unicode-width)',
               'characters with a drawing meaning (keys of the ascii/unicode property tables of the tree) may or may not be text']
FLOORS = {'quick': {'distinct_nontrivial': 3000, 'shape_label_documents': 500}, 'thorough': {'distinct_nontrivial': 60000, 'shape_label_documents': 5000}}
LAB = "abzé日ЖkñД字" + "\u1100\u26a1\u2329"   # the last three: double-width characters below the East Asian blocks
DRAW = "-|+/.'\u2019"


def check_case(ctx, case):
    rows = case['rows']
    drawing = ctx.extra['drawing']
    if case.get('previous') is not None:
        # through a CellBuffer that held (and rendered) another document before and was then edited cell by cell
        r = ctx.conv(gen.text_of(case['previous']) + '\x1e' + gen.text_of(rows), entry=6)
        ctx.tag('edited_buffer_conversions')
    else:
        r = ctx.conv(gen.text_of(rows))
    if not r.ok:
        return 'conversion failed: ' + r.fail_text()
    try:
        sc = Scene(r.out)
    except Malformed as e:
        return 'output not parseable: %s' % e
    ax, ay = ctx.anchor()
    if not (0 <= ax < 8 and 0 <= ay <= 16):
        return 'a text element is anchored at (%s,%s) relative to the cell of its first character, which is outside that cell' % (ax, ay)
    grid = []
    quotes = {}
    for y, row in enumerate(rows):
        cols = {}
        c = 0
        for ch in row:
            cols[c] = ch
            c += cw(ch)
        colist = gen.columns(row)
        for a, b in gen.quoted_segments(colist):
            quotes[(a, y)] = ''.join(x for x in colist[a + 1:b] if x != '\0')
            for k in range(a, b + 1):
                if k in cols:
                    cols[k] = cols[k] if k == a else ' '   # the quoted region is not ordinary cells
        grid.append(cols)
    ctx.extra.setdefault('_quotes', {})[id(case)] = quotes
    nontriv = any(ord(ch) > 0x7f and (cols.get(c - 1, ' ') in ' ' + DRAW or cols.get(c + cw(ch), ' ') in ' ' + DRAW)
                  for cols in grid for c, ch in cols.items())
    ctx.note(key_of(rows), nontriv, 'rows_%d' % len(rows))
    covered = {}
    for e, ing in sc.flat():
        if e[0] != 'text':
            continue
        cx = (e[2] - ax) / 8
        cy = (e[3] - ay) / 16
        if cx.denominator != 1 or cy.denominator != 1:
            return 'text %r anchored at (%s,%s), not at the sub-cell point of a cell' % (e[4], e[2], e[3])
        cx, cy = int(cx), int(cy)
        c = cx
        if 0 <= cy < len(grid) and grid[cy].get(cx) == '"' and (cx, cy) in ctx.extra.get('_quotes', {}).get(id(case), {}):
            # a quoted segment: one text element at the cell of the opening quote, content = the characters up to
            # the closing quote
            want = ctx.extra['_quotes'][id(case)][(cx, cy)]
            if e[4] != want:
                return 'quoted text at cell (%d,%d) shows %r, the input has %r' % (cx, cy, e[4], want)
            if (cx, cy) in covered:
                return 'the quoted segment at (%d,%d) is shown twice' % (cx, cy)
            covered[(cx, cy)] = '"'
            continue
        for ch in e[4]:
            have = grid[cy].get(c) if 0 <= cy < len(grid) else None
            if have != ch:
                return 'text %r at cell (%d,%d): column %d of that row holds %r, not %r' % (e[4], cx, cy, c, have, ch)
            if (c, cy) in covered:
                return 'input character %r at (%d,%d) is shown by two text elements' % (ch, c, cy)
            covered[(c, cy)] = ch
            c += cw(ch)
    for y, cols in enumerate(grid):
        for c, ch in cols.items():
            if ch != ' ' and ch not in drawing and (c, y) not in covered:
                return 'label character %r at (%d,%d) is not shown by any text element' % (ch, c, y)
    return None


def run_shard(ctx, shard):
    if shard['kind'] == 'exh':
        alpha = " aé日-"
        n = shard['len']
        pre = shard.get('prefix', '')
        for cells in itertools.product(alpha, repeat=n - len(pre)):
            top = pre + ''.join(cells)
            for second in shard['seconds']:
                rows = [top] + ([second] if second else [])
                ctx.run_case({'rows': rows})
        ctx.sample({'rows': [alpha[:n], shard['seconds'][-1]]})
        return
    rng = rng_for(ctx.seed, ID, shard['name'])
    if shard['kind'] == 'shapes':
        # labels touching / inside shapes that touch each other (no blank column or row between them): the
        # shape recognisers peel characters off a span in several rounds, the labels must survive every round
        circles = ctx.extra['circles']
        for i in range(shard['n']):
            c = list(rng.choice([a for a in circles if 3 <= len(a) <= 9]))
            h = len(c)
            cw_ = max(len(r) for r in c)
            c = [r.ljust(cw_) for r in c]
            lab = rng.choice(['ab', 'k9', 'qz', 'a', 'hi', 'zb7'])
            mid = h // 2
            mode = rng.randrange(5)
            if mode == 0:      # box | circle label
                b = gen.box(rng.randint(1, 4), h - 2)
                rows = [x + y for x, y in zip(b, c)]
                rows[mid] = rows[mid].rstrip() + lab
            elif mode == 1:    # box | circle with the label inside the circle
                b = gen.box(rng.randint(1, 4), h - 2)
                inner = c[mid]
                lead = len(inner) - len(inner.lstrip())
                if len(inner.strip()) - 2 >= len(lab) + 2 and inner.strip()[1:-1].strip() == '':
                    inner = inner[:lead + 2] + lab + inner[lead + 2 + len(lab):]
                rows = [x + y for x, y in zip(b, c[:mid] + [inner] + c[mid + 1:])]
            elif mode == 2:    # two circles stacked, label next to the lower one
                rows = c + c
                rows[h + mid] = rows[h + mid].rstrip() + lab
            elif mode == 3:    # circle | box with a label in the box, label after the box
                w = rng.randint(3, 6)
                b = gen.box(w, h - 2, inner={max(0, mid - 1): ' ' + lab[:w - 1]} if h > 2 else None)
                rows = [x + y for x, y in zip(c, b)]
                rows[0] = rows[0] + lab
            else:              # label directly above / below a box and a circle side by side
                b = gen.box(rng.randint(1, 4), h - 2)
                rows = [lab + ' ' + lab] + [x + y for x, y in zip(b, c)] + [' ' + lab]
            rows = [r.rstrip() for r in rows]
            ctx.run_case({'rows': rows})
            ctx.tag('shape_label_documents')
            if i == 0:
                ctx.sample({'rows': rows})
        return
    for i in range(shard['n']):
        w = rng.randint(1, 12)
        h = rng.randint(1, 5)
        pl = rng.choice([0.3, 0.5, 0.7])
        rows = [''.join(rng.choice(LAB) if rng.random() < pl else (rng.choice(DRAW) if rng.random() < 0.3 else ' ') for _ in range(w)) for _ in range(h)]
        if i % 7 == 3:
            # quoted segments (with multi-byte, double-width and zero-width characters) followed by labels
            q = ''.join(rng.choice('ab é\u0301日\u200bЖ-|\u1100\u26a1') for _ in range(rng.randint(1, 5)))
            y = rng.randrange(len(rows))
            rows[y] = rows[y][:rng.randint(0, len(rows[y]))].replace('"', '') + '"' + q + '" ' + rng.choice(['ab', 'k9', 'zb a'])
            ctx.run_case({'rows': rows})
            ctx.tag('documents_with_quoted_text')
            continue
        if i % 11 == 5:
            # labels whose characters spell a character reference or an escape: still these very characters, one per cell
            y = rng.randrange(len(rows))
            rows[y] = rows[y] + ' ' + ' '.join(rng.choice(['&lt;', '&gt;', '&amp;', 'a&lt;b', '&amp;&amp;', '&lt', 'R&D;', '&;', '&#8;', '\\n', '%41', '&lt;é']) for _ in range(rng.randint(1, 3)))
            ctx.run_case({'rows': rows})
            ctx.tag('labels_spelling_references')
            continue
        if i % 5 == 4:
            prev = [''.join(rng.choice(LAB + DRAW + '  ') for _ in range(rng.randint(1, 12))) for _ in range(rng.randint(1, 5))]
            ctx.run_case({'rows': rows, 'previous': prev})
            continue
        ctx.run_case({'rows': rows})
        if i == 0:
            ctx.sample({'rows': rows})


def execute(run):
    binary = build_driver()
    info = driver_info(binary)
    drawing = set(info['ascii']) | set(info['unicode_properties']) | set(info['unicode_fragments'])
    extra = {'drawing': drawing, 'circles': info['circles']}
    shards = []
    maxlen = 6 if run.tier == 'quick' else 7
    for n in range(1, maxlen + 1):
        pres = [''] if n < 5 else [a + b for a in " aé日-" for b in (" aé日-" if n > 5 else [''])]
        for pre in pres:
            shards.append({'kind': 'exh', 'name': 'exh-%d-%s' % (n, pre), 'len': n, 'prefix': pre, 'seconds': ['', 'x' * 8, '-' * 3]})
    k, n = (16, 1500) if run.tier == 'quick' else (32, 15000)
    shards += [{'kind': 'rand', 'name': 'rand-%d' % i, 'n': n} for i in range(k)]
    shards += [{'kind': 'shapes', 'name': 'shapes-%d' % i, 'n': n // 3} for i in range(4)]
    shards.sort(key=lambda s: -s.get('len', 0))
    run.extra_cov['exhaustive_scopes'] = ['all rows of length 1..%d over {space,a,é,日,-}, alone, above xxxxxxxx and above ---' % maxlen]
    run.run_shards(binary, shards, extra=extra)


if __name__ == '__main__':
    sys.exit(main(sys.modules[__name__]))
