"""C04 - every non-drawing character appears exactly once, as text, in its own cell.

Oracle: the display column map of each input row (a double-width character occupies two columns); every text
element is walked character by character through that map (anchor = sub-cell point q of its first cell);
every non-blank input character without drawing meaning must be covered by exactly one text element.
The list of drawing characters is read from the tree under test (driver `info`), not hard-coded.
"""
import itertools
import sys

import gen
from vlib import F, Malformed, Scene, build_driver, driver_info, cw, key_of, main, rng_for

ID = 'C04'
LEVEL = 'exploration'
RULE = ('rows of length 1..6 over {space, a, é, 日, -} enumerated exhaustively, alone and above a row of x (one span), and random '
        'grids up to 12x5 mixing ASCII / Latin-1 / Cyrillic / CJK labels with blanks and a few drawing characters; non-trivial = '
        'distinct input containing a multi-byte or double-width label next to a blank or a drawing character')
ASSUMPTIONS = ['width-1 and width-2 characters only (python unicodedata east_asian_width W/F = 2 columns, as unicode-width)',
               'characters with a drawing meaning (keys of the ascii/unicode property tables of the tree) may or may not be text']
FLOORS = {'quick': {'distinct_nontrivial': 3000}, 'thorough': {'distinct_nontrivial': 60000}}
LAB = "abzé日ЖkñД字"
DRAW = "-|+/.'"


def check_case(ctx, case):
    rows = case['rows']
    drawing = ctx.extra['drawing']
    r = ctx.conv(gen.text_of(rows))
    if not r.ok:
        return 'conversion failed: ' + r.fail_text()
    try:
        sc = Scene(r.out)
    except Malformed as e:
        return 'output not parseable: %s' % e
    grid = []
    for row in rows:
        cols = {}
        c = 0
        for ch in row:
            cols[c] = ch
            c += cw(ch)
        grid.append(cols)
    nontriv = any(ord(ch) > 0x7f and (cols.get(c - 1, ' ') in ' ' + DRAW or cols.get(c + cw(ch), ' ') in ' ' + DRAW)
                  for cols in grid for c, ch in cols.items())
    ctx.note(key_of(rows), nontriv, 'rows_%d' % len(rows))
    covered = {}
    for e, ing in sc.flat():
        if e[0] != 'text':
            continue
        cx = (e[2] - 2) / 8
        cy = (e[3] - 12) / 16
        if cx.denominator != 1 or cy.denominator != 1:
            return 'text %r anchored at (%s,%s), not at the sub-cell point of a cell' % (e[4], e[2], e[3])
        cx, cy = int(cx), int(cy)
        c = cx
        for ch in e[4]:
            have = grid[cy].get(c) if 0 <= cy < len(grid) else None
            if have != ch:
                return 'text %r at cell (%d,%d): column %d of that row holds %r, not %r' % (e[4], cx, cy, c, have, ch)
            if (c, cy) in covered:
                return 'input character %r at (%d,%d) is shown by two text elements' % (ch, c, cy)
            covered[(c, cy)] = ch
            c += cw(ch)
    for y, cols in enumerate(grid):
        for c, ch in cols.items():
            if ch != ' ' and ch not in drawing and (c, y) not in covered:
                return 'label character %r at (%d,%d) is not shown by any text element' % (ch, c, y)
    return None


def run_shard(ctx, shard):
    if shard['kind'] == 'exh':
        alpha = " aé日-"
        n = shard['len']
        pre = shard.get('prefix', '')
        for cells in itertools.product(alpha, repeat=n - len(pre)):
            top = pre + ''.join(cells)
            for second in shard['seconds']:
                rows = [top] + ([second] if second else [])
                ctx.run_case({'rows': rows})
        ctx.sample({'rows': [alpha[:n], shard['seconds'][-1]]})
        return
    rng = rng_for(ctx.seed, ID, shard['name'])
    for i in range(shard['n']):
        w = rng.randint(1, 12)
        h = rng.randint(1, 5)
        pl = rng.choice([0.3, 0.5, 0.7])
        rows = [''.join(rng.choice(LAB) if rng.random() < pl else (rng.choice(DRAW) if rng.random() < 0.3 else ' ') for _ in range(w)) for _ in range(h)]
        ctx.run_case({'rows': rows})
        if i == 0:
            ctx.sample({'rows': rows})


def execute(run):
    binary = build_driver()
    info = driver_info(binary)
    drawing = set(info['ascii']) | set(info['unicode_properties']) | set(info['unicode_fragments'])
    extra = {'drawing': drawing}
    shards = []
    maxlen = 6 if run.tier == 'quick' else 7
    for n in range(1, maxlen + 1):
        pres = [''] if n < 5 else [a + b for a in " aé日-" for b in (" aé日-" if n > 5 else [''])]
        for pre in pres:
            shards.append({'kind': 'exh', 'name': 'exh-%d-%s' % (n, pre), 'len': n, 'prefix': pre, 'seconds': ['', 'x' * 8, '-' * 3]})
    k, n = (16, 1500) if run.tier == 'quick' else (32, 15000)
    shards += [{'kind': 'rand', 'name': 'rand-%d' % i, 'n': n} for i in range(k)]
    shards.sort(key=lambda s: -s.get('len', 0))
    run.extra_cov['exhaustive_scopes'] = ['all rows of length 1..%d over {space,a,é,日,-}, alone, above xxxxxxxx and above ---' % maxlen]
    run.run_shards(binary, shards, extra=extra)


if __name__ == '__main__':
    sys.exit(main(sys.modules[__name__]))
