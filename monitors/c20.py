"""C20 - the HTTP server returns the library's conversion and survives any request.

The history is recorded at the client boundary (call / return per request) and judged per request against a
sequential model: POST of UTF-8 within 2 MiB -> 200 + the library's to_svg of the body (computed by the
in-process driver); invalid UTF-8 -> 400; GET -> `svgbob_server <version>`; > 2 MiB -> 413; other method ->
405; other path -> 404; malformed -> connection closed or a 4xx. After every burst a GET probe must be
answered (bounded-progress form of "never stops answering"). Thorough: the same against a TSan build.
"""
import fcntl
import http.client
import os
import re
import socket
import subprocess
import sys
import threading
import time

import gen
from vlib import (BuildError, REPO, TARGET, WORK, _run_build, build_driver, build_repo_bins, driver_info, key_of, log, main, rng_for)

ID = 'C20'
LEVEL = 'exploration'
CONFIRM = False
RULE = ('one server process per shard; random request sequences mixing GET, POST of diagrams (empty, hostile markup, up to 20 kB), '
        'invalid UTF-8, oversized bodies, other methods/paths, malformed / pipelined / half-closed / slow requests, issued '
        'sequentially and from 1..16 concurrent client threads; non-trivial = every request whose response was compared')
ASSUMPTIONS = ['"never stops answering" is checked in its bounded form: a GET probe after each burst is answered within 30 s',
               'a connection reset while the client is still sending an oversized body is inconclusive for that request (the 413 may be lost with the reset)']
FLOORS = {'quick': {'requests': 2000, 'status_200': 800, 'status_400': 50, 'status_404': 50, 'status_405': 50, 'status_413': 5, 'max_overlapping_clients': 8, 'probes_answered': 16},
          'thorough': {'requests': 40000, 'status_200': 15000, 'status_400': 1000, 'status_404': 1000, 'status_405': 1000, 'status_413': 50, 'max_overlapping_clients': 8, 'probes_answered': 100}}
LIMIT = 2 * 1024 * 1024


def free_port():
    s = socket.socket()
    s.bind(('127.0.0.1', 0))
    p = s.getsockname()[1]
    s.close()
    return p


class Server:
    def __init__(self, binary, env=None, stdout='file'):
        self.binary = binary
        self.env = env or {}
        # where the server's standard output goes: 'file' (a log file), 'closed_pipe' (a pipe whose reader goes away
        # once the server is up: `svgbob_server | head -1`, a log collector that died), 'undrained_pipe' (a 4 kB pipe
        # nobody reads: whatever the server writes per request eventually blocks)
        self.stdout = stdout
        self.keep = None
        self.start()

    def start(self):
        for attempt in range(5):
            self.port = free_port()
            env = dict(os.environ)
            env['PORT'] = str(self.port)
            env.update(self.env)
            self.log = open(os.path.join(WORK, 'server-%d.log' % self.port), 'w')
            rd = None
            if self.stdout == 'file':
                self.p = subprocess.Popen([self.binary], env=env, stdout=self.log, stderr=subprocess.STDOUT)
            else:
                rd, wr = os.pipe()
                if self.stdout == 'undrained_pipe':
                    try:
                        fcntl.fcntl(wr, 1031, 4096)  # F_SETPIPE_SZ
                    except OSError:
                        pass
                self.p = subprocess.Popen([self.binary], env=env, stdout=wr, stderr=self.log)
                os.close(wr)
            t0 = time.time()
            while time.time() - t0 < 30:
                if self.p.poll() is not None:
                    break
                try:
                    s = socket.create_connection(('127.0.0.1', self.port), timeout=1)
                    s.close()
                    if rd is not None and self.stdout == 'closed_pipe':
                        os.close(rd)     # the banner has been written (the server is listening); its reader goes away
                    elif rd is not None:
                        self.keep = rd   # open, never read
                    return
                except OSError:
                    time.sleep(0.05)
            self.stop()
        raise RuntimeError('server does not start')

    def alive(self):
        return self.p.poll() is None

    def stop(self):
        try:
            self.p.kill()
            self.p.wait()
        except Exception:
            pass
        if self.keep is not None:
            try:
                os.close(self.keep)
            except OSError:
                pass
            self.keep = None
        try:
            self.log.close()
            os.unlink(self.log.name)
        except Exception:
            pass


def raw_exchange(port, chunks, read_timeout=10.0, half_close=False, pause=0.0, stop_after_headers=False):
    """send raw bytes, return what came back (b'' when the connection was just closed)"""
    s = socket.create_connection(('127.0.0.1', port), timeout=read_timeout)
    data = b''
    reset = False
    try:
        for c in chunks:
            try:
                s.sendall(c)
            except OSError:
                reset = True
                break
            if pause:
                time.sleep(pause)
        if half_close:
            try:
                s.shutdown(socket.SHUT_WR)
            except OSError:
                pass
        s.settimeout(read_timeout)
        while True:
            try:
                b = s.recv(1 << 16)
            except socket.timeout:
                break
            except OSError:
                reset = True
                break
            if not b:
                break
            data += b
            if len(data) > 64 << 20 or (stop_after_headers and b'\r\n\r\n' in data):
                break
    finally:
        s.close()
    return data, reset


def statuses_of(raw):
    return [int(m.group(1)) for m in re.finditer(rb'HTTP/1\.[01] (\d{3}) ', raw)]


class Client(threading.Thread):
    def __init__(self, port, plan, version, results):
        threading.Thread.__init__(self)
        self.port, self.plan, self.version, self.results = port, plan, version, results

    def run(self):
        conn = None
        for req in self.plan:
            kind = req['kind']
            t0 = time.monotonic()
            verdict = None
            status = None
            try:
                if kind in ('post', 'get', 'bad_utf8', 'method', 'path'):
                    method = {'post': 'POST', 'bad_utf8': 'POST', 'get': 'GET'}.get(kind, req.get('method', 'GET'))
                    path = req.get('path', '/')
                    body = req.get('body')
                    if req.get('fresh') and conn:
                        conn.close()
                        conn = None
                    # a server may close an idle keep-alive connection at any time: a failure on a reused
                    # connection is retried once on a fresh one, only a fresh connection without answer counts
                    for attempt in range(2):
                        reused = conn is not None
                        if conn is None:
                            conn = http.client.HTTPConnection('127.0.0.1', self.port, timeout=120)
                        try:
                            conn.request(method, path, body=body)
                            resp = conn.getresponse()
                            data = resp.read()
                            status = resp.status
                            if resp.will_close:
                                conn.close()
                                conn = None
                            break
                        except (http.client.HTTPException, OSError) as e:
                            conn.close()
                            conn = None
                            if reused and attempt == 0:
                                continue
                            if isinstance(e, (socket.timeout, TimeoutError)):
                                # a wall-clock limit of the client under load is not a verdict; whether the server still
                                # answers is decided by the probe after the burst, when the load has stopped
                                verdict = 'INCONCLUSIVE no answer within the 120 s of the client while the burst was running'
                            else:
                                verdict = 'no response to %s %s on a fresh connection: %r' % (method, path, e)
                            status = -1
                            break
                    if verdict is None:
                        if kind == 'post':
                            if status != 200 or data != req['expect']:
                                verdict = 'POST of %d bytes: status %d, body %s the library document (%d vs %d bytes)' % (
                                    len(body), status, 'equals' if data == req['expect'] else 'differs from', len(data), len(req['expect']))
                        elif kind == 'get':
                            if status != 200 or data.decode('utf-8', 'replace') != self.version:
                                verdict = 'GET: status %d body %r, expected %r' % (status, data[:80], self.version)
                        elif kind == 'bad_utf8':
                            if status != 400:
                                verdict = 'POST of invalid UTF-8: status %d, expected 400' % status
                        elif kind == 'method':
                            if status != 405:
                                verdict = '%s /: status %d, expected 405' % (method, status)
                        elif kind == 'path':
                            if status != 404:
                                verdict = '%s %s: status %d, expected 404' % (method, path, status)
                elif kind == 'abandon':
                    status = 0
                    try:
                        s = socket.create_connection(('127.0.0.1', self.port), timeout=10)
                        try:
                            for c in req['chunks']:
                                s.sendall(c)
                            if req.get('half'):
                                s.shutdown(socket.SHUT_WR)
                            time.sleep(req['delay'])
                        finally:
                            s.close()
                    except OSError:
                        pass
                elif kind == 'oversized':
                    n = req['size']
                    head = b'POST / HTTP/1.1\r\nHost: x\r\nContent-Length: %d\r\n\r\n' % n
                    chunks = [head + b'a' * 1024]
                    raw, reset = raw_exchange(self.port, chunks, read_timeout=3.0, stop_after_headers=True)
                    sts = statuses_of(raw)
                    if not sts:
                        # the server waits for the body: send it
                        raw, reset = raw_exchange(self.port, [head] + [b'+' * 65536] * (n // 65536) + [b'+' * (n % 65536)], read_timeout=20.0, stop_after_headers=True)
                        sts = statuses_of(raw)
                    status = sts[0] if sts else -1
                    if status == -1 and reset:
                        verdict = 'INCONCLUSIVE reset'
                    elif status != 413:
                        verdict = 'POST of %d bytes (> 2 MiB): status %s, expected 413' % (n, status)
                elif kind == 'raw':
                    raw, reset = raw_exchange(self.port, req['chunks'], read_timeout=req.get('timeout', 5.0), half_close=req.get('half_close', False), pause=req.get('pause', 0.0))
                    sts = statuses_of(raw)
                    status = sts[0] if sts else 0
                    want = req.get('want')
                    if want is not None:
                        if want.get('ignore_1xx'):
                            sts = [s for s in sts if s >= 200]
                            status = sts[0] if sts else 0
                        if sts != want['statuses']:
                            verdict = 'raw exchange %s: statuses %r, expected %r' % (req['name'], sts, want['statuses'])
                        else:
                            for doc in want.get('bodies', []):
                                if doc not in raw:
                                    verdict = 'raw exchange %s: a response body is not the library document' % req['name']
                    else:
                        # malformed: closed without response, or some 4xx / 5xx-free answer
                        if any(not (400 <= s < 500) for s in sts):
                            verdict = 'malformed request %s answered with %r' % (req['name'], sts)
            except Exception as e:
                verdict = 'client error %r' % (e,)
                status = -2
            t1 = time.monotonic()
            self.results.append((t0, t1, kind, status, verdict, req))
        if conn:
            conn.close()


HOSTILE = ['\ufeff+--+\n|  |\n+--+\n', '\ufeff', '\ufeffab', ' \ufeff-->', '\u200b+-+', '\ufffe', '', ' ', '\n', '<script>alert(1)</script>\n', '"</text><script>"\n', '# Legend:\na = {</style>}\n', '\x00\x01\x02', '{a}' * 50, '"' * 101,
           '日本語 -> *\n', '\r\n\r\n', 'GET / HTTP/1.1\r\n\r\n', '-' * 20000, 'x' * 5000 + '\n+--+\n', '"' + 'q' * 9000 + '"\n', ' ' * 19999 + '|\n',
           '\n' * 20000, '# Legend:\n' + 'a = {b}\n' * 2000]


def make_plan(rng, ctx, circles, n, heavy):
    plan = []
    for _ in range(n):
        q = rng.random()
        if q < 0.5:
            r2 = rng.random()
            if r2 < 0.15:
                doc = rng.choice(HOSTILE)
            elif r2 < 0.2 and heavy:
                rows = gen.random_grid(rng, gen.FULL, wmax=80, hmax=60, wmin=60, hmin=30, dens=0.25)
                doc = gen.text_of(rows)
            elif r2 < 0.25:
                doc = 'a b c d e f g h\n' * rng.randint(100, 1200)   # up to ~20 kB, cheap to convert
            else:
                kind, rows = gen.diagram(rng, circles, allow_quotes=True, allow_braces=True)
                doc = gen.text_of(rows)
                if rng.random() < 0.1:
                    doc = rng.choice(['\ufeff', '\u200b', '\u00a0', '\r\n', '\t', '\x00']) + doc
            exp = ctx.conv(doc, entry=0)
            if not exp.ok:
                continue
            plan.append({'kind': 'post', 'body': doc.encode('utf-8'), 'expect': exp.out.encode('utf-8'), 'fresh': rng.random() < 0.3})
        elif q < 0.62:
            plan.append({'kind': 'get', 'fresh': rng.random() < 0.3})
        elif q < 0.7:
            plan.append({'kind': 'bad_utf8', 'body': rng.choice([b'\xff', b'+--+\n\xc3\x28', b'\xed\xa0\x80', b'abc\x80', b'\xf8\x88\x80\x80\x80']), 'fresh': rng.random() < 0.3})
        elif q < 0.77:
            plan.append({'kind': 'method', 'method': rng.choice(['PUT', 'DELETE', 'PATCH', 'OPTIONS']), 'body': rng.choice([None, b'x']), 'fresh': rng.random() < 0.3})
        elif q < 0.84:
            plan.append({'kind': 'path', 'method': rng.choice(['GET', 'POST', 'PUT']), 'path': rng.choice(['/x', '/index.html', '//', '/%00', '/a/b?c=d', '/.']),
                         'body': rng.choice([None, b'+']), 'fresh': rng.random() < 0.3})
        elif q < 0.86:
            plan.append({'kind': 'oversized', 'size': rng.choice([LIMIT + 1, LIMIT + 4096, 3 * LIMIT])})
        elif q < 0.90:
            # a complete, well-formed POST whose client hangs up before (or while) the answer is produced
            body = ('a b c d e f g h\n' * rng.randint(200, 1200)).encode()
            plan.append({'kind': 'abandon', 'delay': rng.choice([0.0, 0.005, 0.02, 0.03, 0.06]), 'half': rng.random() < 0.3,
                         'chunks': [b'POST / HTTP/1.1\r\nHost: x\r\nContent-Length: %d\r\n\r\n' % len(body) + body]})
        elif q < 0.93:
            name, chunks, kw = rng.choice([
                ('garbage', [b'GARBAGE\r\n\r\n'], {}),
                ('binary', [bytes(range(256))], {}),
                ('bad-length', [b'POST / HTTP/1.1\r\nHost: x\r\nContent-Length: abc\r\n\r\n+'], {}),
                ('no-version', [b'GET /\r\n\r\n'], {}),
                ('truncated-headers', [b'POST / HTTP/1.1\r\nHost: x\r\nContent-Le'], {'half_close': True}),
                ('truncated-body', [b'POST / HTTP/1.1\r\nHost: x\r\nContent-Length: 100\r\n\r\n+--+'], {'half_close': True}),
                ('slow-loris', [b'POST / HT', b'TP/1.1\r\nHo', b'st: x\r\nConte'], {'pause': 0.05, 'half_close': True}),
                ('bad-chunk', [b'POST / HTTP/1.1\r\nHost: x\r\nTransfer-Encoding: chunked\r\n\r\nZZ\r\n+\r\n0\r\n\r\n'], {}),
                ('http09', [b'\r\n\r\n\r\n'], {'half_close': True}),
            ])
            d = {'kind': 'raw', 'name': name, 'chunks': chunks, 'timeout': 3.0}
            d.update(kw)
            plan.append(d)
        else:
            # well-formed exchanges over a raw socket: pipelining and fragmentation
            doc = gen.text_of(gen.diagram(rng, circles)[1])
            exp = ctx.conv(doc, entry=0)
            body = doc.encode('utf-8')
            reqb = b'POST / HTTP/1.1\r\nHost: x\r\nContent-Length: %d\r\n\r\n' % len(body) + body
            getb = b'GET / HTTP/1.1\r\nHost: x\r\n\r\n'
            closeb = b'GET / HTTP/1.1\r\nHost: x\r\nConnection: close\r\n\r\n'
            which = rng.randrange(6)
            if which == 3:
                # the same POST with a query string: still a POST of that body
                q = b'POST /?' + rng.choice([b'a=b', b'x', b'scale=2&k=%3C', b'']) + b' HTTP/1.1\r\nHost: x\r\nConnection: close\r\nContent-Length: %d\r\n\r\n' % len(body) + body
                plan.append({'kind': 'raw', 'name': 'query-string', 'chunks': [q], 'timeout': 20.0, 'want': {'statuses': [200], 'bodies': [exp.out.encode('utf-8')]}})
            elif which == 4:
                # Expect: 100-continue, the body sent after a pause; an interim 100 may or may not be sent
                h = b'POST / HTTP/1.1\r\nHost: x\r\nConnection: close\r\nExpect: 100-continue\r\nContent-Length: %d\r\n\r\n' % len(body)
                plan.append({'kind': 'raw', 'name': 'expect-continue', 'chunks': [h, body], 'pause': 0.05, 'timeout': 20.0,
                             'want': {'statuses': [200], 'ignore_1xx': True, 'bodies': [exp.out.encode('utf-8')]}})
            elif which == 5:
                q = b'POST / HTTP/1.0\r\nContent-Length: %d\r\n\r\n' % len(body) + body
                plan.append({'kind': 'raw', 'name': 'http10', 'chunks': [q], 'timeout': 20.0, 'want': {'statuses': [200], 'bodies': [exp.out.encode('utf-8')]}})
            elif which == 0:
                plan.append({'kind': 'raw', 'name': 'pipelined', 'chunks': [reqb + getb + reqb + closeb], 'timeout': 20.0,
                             'want': {'statuses': [200, 200, 200, 200], 'bodies': [exp.out.encode('utf-8')]}})
            elif which == 1:
                k = rng.randint(1, max(1, len(reqb) - 1))
                plan.append({'kind': 'raw', 'name': 'fragmented', 'chunks': [reqb[:k], reqb[k:] + closeb], 'pause': 0.02, 'timeout': 20.0,
                             'want': {'statuses': [200, 200], 'bodies': [exp.out.encode('utf-8')]}})
            else:
                chunked = b'POST / HTTP/1.1\r\nHost: x\r\nTransfer-Encoding: chunked\r\nConnection: close\r\n\r\n' + b''.join(
                    b'%x\r\n' % len(body[i:i + 7]) + body[i:i + 7] + b'\r\n' for i in range(0, len(body), 7)) + b'0\r\n\r\n'
                plan.append({'kind': 'raw', 'name': 'chunked', 'chunks': [chunked], 'timeout': 20.0,
                             'want': {'statuses': [200], 'bodies': [exp.out.encode('utf-8')]}})
    return plan


def probe(port, version, want_box=None):
    for attempt in range(3):
        try:
            c = http.client.HTTPConnection('127.0.0.1', port, timeout=30)
            c.request('GET', '/')
            r = c.getresponse()
            d = r.read()
            ok = r.status == 200 and d.decode('utf-8', 'replace') == version
            if ok and want_box is not None:
                c.request('POST', '/', body=b'+--+\n|  |\n+--+\n')
                r = c.getresponse()
                d = r.read()
                ok = r.status == 200 and d.decode('utf-8', 'replace') == want_box
            c.close()
            if ok:
                return True
        except (OSError, http.client.HTTPException):
            time.sleep(0.5)
    return False


class AgedConnection:
    """one keep-alive connection that lives as long as the shard and posts the same 20 kB diagram before every
    burst and once more when it is at least 11 s old; a request on a connection the server has closed in the
    meantime (it may do that with idle connections) says nothing and is repeated on a fresh connection"""

    def __init__(self, ctx, port):
        self.ctx = ctx
        self.port = port
        rows = ['+' + '-' * 60 + '+'] + ['| %04d %s|' % (i, ('label ' * 9)) for i in range(300)] + ['+' + '-' * 60 + '+']
        self.doc = gen.text_of(rows)
        r = ctx.conv(self.doc, entry=0)
        self.want = r.out if r.ok else None
        self.t0 = time.time()
        self.c = http.client.HTTPConnection('127.0.0.1', port, timeout=120)
        self.posts = 0

    def post(self):
        """None, or what is wrong with the answer"""
        if self.want is None:
            return None
        age = time.time() - self.t0
        try:
            self.c.request('POST', '/', body=self.doc.encode())
            r = self.c.getresponse()
            body = r.read()
        except (OSError, http.client.HTTPException):
            self.ctx.tag('aged_connection_was_closed')
            self.c.close()
            self.c = http.client.HTTPConnection('127.0.0.1', self.port, timeout=120)
            self.t0 = time.time()
            return None
        self.posts += 1
        self.ctx.tag('posts_on_aged_connection')
        self.ctx.maxi('age_of_reused_connection_s', int(age))
        if r.status != 200 or body.decode('utf-8', 'replace') != self.want:
            return 'POST of %d bytes on a keep-alive connection that is %.1f s old (request number %d on it): status %d, %s' % (
                len(self.doc), age, self.posts, r.status, 'body differs from the library document (%d vs %d bytes)' % (len(body), len(self.want.encode())))
        return None

    def finish(self):
        wait = 11.5 - (time.time() - self.t0)
        if wait > 0:
            time.sleep(wait)
        v = self.post()
        self.c.close()
        return v


def run_shard(ctx, shard):
    rng = rng_for(ctx.seed, ID, shard['name'])
    circles = ctx.extra['circles']
    version = ctx.extra['version']
    srv = Server(shard.get('binary') or ctx.extra['server'], env=shard.get('env'), stdout=shard.get('stdout', 'file'))
    ctx.tag('servers_with_stdout_' + shard.get('stdout', 'file'))
    aged = None
    rb = ctx.conv('+--+\n|  |\n+--+\n', entry=0)
    box = rb.out if rb.ok else None
    try:
        for burst in range(shard['bursts']):
            if aged is None or aged.port != srv.port:
                aged = AgedConnection(ctx, srv.port)
            v = aged.post()
            if v:
                ctx._violation({'aged_connection': True, 'burst': burst}, v)
            nclients = rng.choice(shard['clients'])
            results = []
            plans = [make_plan(rng, ctx, circles, shard['per_client'], shard.get('heavy', True)) for _ in range(nclients)]
            clients = [Client(srv.port, p, version, results) for p in plans]
            for c in clients:
                c.start()
            for c in clients:
                c.join(timeout=900)
                if c.is_alive():
                    ctx.inconclusive['client thread watchdog'] += 1
            # overlap actually observed
            evs = sorted([(t0, 1) for t0, t1, *_ in results] + [(t1, -1) for t0, t1, *_ in results])
            cur = mx = 0
            for _, d in evs:
                cur += d
                mx = max(mx, cur)
            ctx.maxi('overlapping_clients', mx)
            for (t0, t1, kind, status, verdict, req) in results:
                ctx.note(key_of(shard['name'], burst, t0), True, 'requests', 'kind_' + kind, 'status_%s' % status)
                if verdict and verdict.startswith('INCONCLUSIVE'):
                    ctx.inconclusive['no answer within the client timeout under load' if 'client' in verdict else 'oversized body: connection reset before the status could be read'] += 1
                elif verdict:
                    small = {k: (v if not isinstance(v, (bytes, list)) else repr(v)[:400]) for k, v in req.items()}
                    ctx._violation({'request': small, 'concurrent_clients': nclients}, verdict + ' (with %d concurrent clients)' % nclients)
            if not srv.alive():
                ctx._violation({'burst': burst, 'clients': nclients}, 'the server process died (status %s) during a burst of %d clients' % (srv.p.returncode, nclients))
                srv = Server(shard.get('binary') or ctx.extra['server'], env=shard.get('env'), stdout=shard.get('stdout', 'file'))
            elif probe(srv.port, version, box):
                ctx.tag('probes_answered')
            else:
                ctx._violation({'burst': burst, 'clients': nclients}, 'the server does not answer a GET and a POST of a small box correctly within 3 x 30 s after a burst of %d clients' % nclients)
        if aged is not None and srv.alive():
            v = aged.finish()
            if v:
                ctx._violation({'aged_connection': True, 'burst': 'after the last'}, v)
        ctx.sample({'server_port': srv.port, 'bursts': shard['bursts'], 'clients': shard['clients']})
    finally:
        srv.stop()


def check_case(ctx, case):
    return 'histories of the server check are not replayable request by request; re-run the check (VERIF_SEED) to reproduce'


def tsan_server():
    tdir = os.path.join(TARGET, 'tsan-repo')
    env = {'RUSTFLAGS': '-Zsanitizer=thread', 'RUSTUP_TOOLCHAIN': 'nightly'}
    cmd = ['cargo', '+nightly', 'build', '--offline', '--release', '-p', 'svgbob_server', '-Zbuild-std', '--target', 'x86_64-unknown-linux-gnu',
           '--target-dir', tdir, '--config', 'profile.release.lto=false', '--config', 'profile.release.codegen-units=16']
    _run_build(cmd, REPO, env_extra=env, what='TSan server build')
    return os.path.join(tdir, 'x86_64-unknown-linux-gnu', 'release', 'svgbob_server')


def execute(run):
    binary = build_driver()
    cli, server = build_repo_bins()
    info = driver_info(binary)
    ver = None
    for line in open(os.path.join(REPO, 'crates/svgbob_server/Cargo.toml')):
        m = re.match(r'version\s*=\s*"([^"]+)"', line)
        if m and ver is None:
            ver = m.group(1)
    extra = {'circles': info['circles'], 'server': server, 'version': 'svgbob_server ' + ver}
    quick = run.tier == 'quick'
    shards = []
    shards.append({'name': 'sequential', 'bursts': 4 if quick else 20, 'clients': [1], 'per_client': 60})
    for i in range(7 if quick else 15):
        shards.append({'name': 'concurrent-%d' % i, 'bursts': 3 if quick else 12, 'clients': [2, 4, 8, 16, 16], 'per_client': 16 if quick else 25})
    # the environment of a long-running server: its standard output may lose its reader or never be read
    shards.append({'name': 'stdout-reader-gone', 'bursts': 2 if quick else 6, 'clients': [1, 4], 'per_client': 40, 'stdout': 'closed_pipe'})
    shards.append({'name': 'stdout-never-read', 'bursts': 3 if quick else 8, 'clients': [4, 8], 'per_client': 60, 'stdout': 'undrained_pipe'})
    run.run_shards(binary, shards, extra=extra, workers=8)
    run.tags['max_overlapping_clients'] = int(run.maxima.get('overlapping_clients', 0))
    if not quick:
        try:
            tsan = tsan_server()
        except BuildError as e:
            run.inconclusive['TSan server build failed: %s' % str(e)[-300:]] += 1
            return
        logbase = os.path.join(WORK, 'tsan-server-log')
        for f in os.listdir(WORK):
            if f.startswith('tsan-server-log'):
                os.unlink(os.path.join(WORK, f))
        sh = [{'name': 'tsan-%d' % i, 'bursts': 4, 'clients': [4, 8, 16], 'per_client': 10, 'binary': tsan, 'heavy': False,
               'env': {'TSAN_OPTIONS': 'halt_on_error=0 log_path=%s' % logbase}} for i in range(4)]
        run.run_shards(binary, sh, extra=extra, workers=4)
        own = other = 0
        for f in os.listdir(WORK):
            if f.startswith('tsan-server-log'):
                txt = open(os.path.join(WORK, f), errors='replace').read()
                for blk in txt.split('==================')[1:]:
                    if 'WARNING: ThreadSanitizer' not in blk:
                        continue
                    if re.search(r'(?<![\w-])svgbob::|once_cell::|svgbob_server::(text_to_svgbob|hello)', blk):
                        own += 1
                        if own <= 3:
                            run.violations.append({'case': {'tsan': 'server under concurrent clients'}, 'signature': None,
                                                   'message': 'ThreadSanitizer report with a frame in svgbob/once_cell/svgbob_server:\n' + blk[:1500]})
                            run.nviol += 1
                    else:
                        other += 1
        run.extra_cov['tsan'] = {'reports_in_code_under_test': own, 'tsan_reports_outside_code_under_test': other}


if __name__ == '__main__':
    sys.exit(main(sys.modules[__name__]))
