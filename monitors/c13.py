"""C13 - every catalogued circle drawing becomes exactly one matching circle.

Oracle (closed form from the cells of the drawing): exactly one circle element and nothing else; radius =
(n-1)/2 cells for an n-cell-wide drawing (n/2 when the left-most character is a slash); horizontal extent =
extent of the drawing; every character's cell centre within one cell diagonal of the circle.
The 22 drawings are frozen in data/circle-catalogue.txt; whether the table of the tree equals them is recorded.
"""
import math
import os
import sys

import gen
from vlib import F, Malformed, Scene, VERIF, build_driver, driver_info, key_of, main, rng_for, show_el

ID = 'C13'
LEVEL = 'exploration'
RULE = ('the 22 catalogue drawings x offsets (0..60, 0..40) x optional unrelated content at least 2 cells away; '
        'non-trivial = distinct (drawing, offset, companion)')
ASSUMPTIONS = ['"about one cell" = one cell diagonal (sqrt(8^2+16^2) px at scale 8)',
               'the frozen catalogue (data/circle-catalogue.txt) is the documented one; whether the table of the tree equals it is recorded in the evidence']
FLOORS = {'quick': {'distinct_nontrivial': 800, 'drawings_seen': 22}, 'thorough': {'distinct_nontrivial': 50000, 'drawings_seen': 22}}
DIAG = math.hypot(8, 16)


def frozen():
    arts = []
    cur = None
    for l in open(os.path.join(VERIF, 'data', 'circle-catalogue.txt'), encoding='utf-8').read().split('\n'):
        if l.startswith('#CIRCLE'):
            cur = []
            arts.append(cur)
        elif cur is not None and l.strip() != '':
            cur.append(l)
    return arts


def check_case(ctx, case):
    art = case['art']
    ox, oy = case['ox'], case['oy']
    rows = [''] * oy + [' ' * ox + r for r in art]
    if case.get('blank'):
        # the blanks of the page (indentation and the inside of the drawing) are no-break spaces, as in text copied
        # from a web page or a word processor: still blanks, still one column each
        rows = [r.replace(' ', case['blank']) for r in rows]
        ctx.tag('pages_with_no_break_spaces')
    comp = case.get('companion')
    comp_els = []
    if comp:
        # unrelated content, at least 2 cells away: to the right of the drawing or below it
        crow, where = comp
        width = max(len(r) for r in rows)
        if where == 'right':
            rows = gen.pad_rows(rows, width + 2)
            rows[oy] = rows[oy] + crow
            cx, cy = width + 2, oy
        else:
            rows = rows + ['', ''] + [crow]
            cx, cy = 0, len(rows) - 1
        rc = ctx.conv(crow + '\n')
        if not rc.ok:
            return 'conversion failed: ' + rc.fail_text()
        comp_els = Scene(rc.out, dx=-8 * cx, dy=-16 * cy).els
    if case.get('previous'):
        # the page drawn into a CellBuffer that held (and converted) another document before
        r = ctx.conv(case['previous'] + '\x1e' + gen.text_of(rows), entry=6)
        ctx.tag('edited_buffer_conversions')
    else:
        r = ctx.conv(gen.text_of(rows))
    if not r.ok:
        return 'conversion failed: ' + r.fail_text()
    try:
        sc = Scene(r.out)
    except Malformed as e:
        return 'output not parseable: %s' % e
    ctx.note(key_of(case['idx'], ox, oy, comp), True, 'with_companion' if comp else 'alone')
    els = list(sc.els)
    for ce in comp_els:
        if ce in els:
            els.remove(ce)
        else:
            return 'the unrelated content %r renders differently next to the circle' % (comp,)
    if len(els) != 1 or els[0][0] != 'circle':
        return 'drawing %d at (%d,%d) is not exactly one circle: %s' % (case['idx'], ox, oy, [show_el(e) for e in els[:4]])
    _, cls, cx, cy, rad = els[0]
    n = max(len(r) for r in art)
    minx = min(len(r) - len(r.lstrip()) for r in art)
    left = [r[minx] for r in art if len(r) > minx and r[minx] != ' ']
    slash = any(c in '/\\' for c in left)
    width = n - minx
    exp_r = F(width, 2) if slash else F(width - 1, 2)
    if rad / 8 != exp_r:
        return 'drawing %d (%d cells wide): radius %s cells, expected %s' % (case['idx'], width, rad / 8, exp_r)
    L, R = cx / 8 - rad / 8, cx / 8 + rad / 8
    eL = ox + minx + (0 if slash else F(1, 2))
    eR = ox + n - (0 if slash else F(1, 2))
    if (L, R) != (eL, eR):
        return 'drawing %d: circle spans columns %s..%s, the drawing spans %s..%s' % (case['idx'], L, R, eL, eR)
    worst = 0
    for y, row in enumerate(art):
        for x, ch in enumerate(row):
            if ch != ' ':
                px = (ox + x + 0.5) * 8
                py = (oy + y + 0.5) * 16
                d = abs(math.hypot(px - float(cx), py - float(cy)) - float(rad))
                worst = max(worst, d)
    ctx.maxi('char_distance_px', round(worst, 2))
    if worst > DIAG + 1e-9:
        return 'drawing %d: a character lies %.1f px from the circle (one cell diagonal is %.1f)' % (case['idx'], worst, DIAG)
    if cls != ('nofill',):
        return 'circle classes %r' % (cls,)
    if not comp and not case.get('previous') and case.get('two_step'):
        # the same page through get_fragment_spans + fragments_to_node, at another scale as well
        for sc_ in (8.0, 2.5):
            r7 = ctx.conv(gen.text_of(rows), entry=7, scale=sc_, ow=float(sc.W), oh=float(sc.H))
            if not r7.ok:
                return 'conversion failed: ' + r7.fail_text()
            s7 = Scene(r7.out, sc=F(repr(sc_)) / 8)
            if s7.els != els:
                return 'through get_fragment_spans + fragments_to_node (scale %s) the drawing is %s instead of %s' % (
                    sc_, [show_el(e) for e in s7.els[:3]], [show_el(e) for e in els[:3]])
        ctx.tag('two_step_path_conversions')
    return None


COMPANIONS = ['+--+', 'abc', '-->', '*', '()', '/', '.-.', 'x y', 'k # Legend: none', '"# Legend:"', '# a = {b}']


def run_shard(ctx, shard):
    arts = ctx.extra['arts']
    rng = rng_for(ctx.seed, ID, shard['name'])
    idx = shard['idx']
    art = arts[idx]
    for (ox, oy) in shard['offsets']:
        comp = None
        if rng.random() < 0.4:
            comp = (rng.choice(COMPANIONS), rng.choice(['right', 'below']))
        case = {'idx': idx, 'art': art, 'ox': ox, 'oy': oy, 'companion': comp, 'two_step': rng.random() < 0.3}
        if rng.random() < 0.08:
            case['blank'] = rng.choice(['\u00a0', '\u2007', '\u202f', '\u2003'])
        if rng.random() < 0.2 and not (comp and '"' in comp[0]):
            # (quoted text is kept outside the cell map, the edited-buffer path cannot carry it)
            case['previous'] = rng.choice(['+--+\n|  |\n+--+\n', 'abc def\n', ' .-.\n(   )\n `-\'\n', '-->\n', '\n'])
        ctx.run_case(case)
    ctx.sample({'drawing': art, 'offsets': shard['offsets'][:3]})
    ctx.tag('drawings_seen')


def execute(run):
    binary = build_driver()
    info = driver_info(binary)
    arts = frozen()
    # the property is about the 22 documented drawings; a tree whose table has more or other drawings is judged
    # by what it does with those 22 (every one of them is converted below), not by comparing tables
    run.extra_cov['table_of_the_tree'] = ('same %d drawings as the documented catalogue' % len(arts)
                                          if [list(a) for a in info['circles']] == arts else
                                          '%d drawings, differs from the documented catalogue' % info['ncircles'])
    rng = rng_for(run.seed, ID, 'offsets')
    shards = []
    for idx in range(len(arts)):
        if run.tier == 'quick':
            offs = [(0, 0), (1, 0), (0, 1), (60, 40), (17, 9), (59, 0), (0, 39)] + [(rng.randint(0, 60), rng.randint(0, 40)) for _ in range(193)]
            shards.append({'name': 'circle-%d' % idx, 'idx': idx, 'offsets': offs})
        else:
            allo = [(x, y) for x in range(61) for y in range(41)]
            for part in range(4):
                shards.append({'name': 'circle-%d-%d' % (idx, part), 'idx': idx, 'offsets': allo[part::4]})
    if run.tier != 'quick':
        run.extra_cov['exhaustive_scopes'] = ['22 drawings x all offsets (0..60) x (0..40)']
    run.run_shards(binary, shards, extra={'arts': arts})
    # drawings_seen counts shards; normalise to drawings
    run.tags['drawings_seen'] = min(run.tags.get('drawings_seen', 0), len(arts)) if run.tier == 'quick' else min(run.tags.get('drawings_seen', 0) // 4, len(arts))


if __name__ == '__main__':
    sys.exit(main(sys.modules[__name__]))
