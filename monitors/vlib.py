"""Shared machinery of the svgbob runtime monitors.

 * build of the driver / the repository binaries from /repo's current working tree
 * Driver: client of the `serve` mode of the driver (requests on its stdin, responses on a
   dedicated pipe, the driver's stdout goes to a file whose growth is reported as noise)
 * XML event stream (expat) and canonical scene with exact rational coordinates
 * Runner: shards over worker processes, three-valued verdicts, replay files, known findings,
   evidence
Only the python standard library is used.
"""
import fcntl
import hashlib
import json
import multiprocessing as mp
import os
import random
import re
import select
import signal
import struct
import subprocess
import sys
import tempfile
import time
import traceback
import unicodedata
import xml.parsers.expat as expat
from collections import Counter
from fractions import Fraction as F

VERIF = os.path.dirname(os.path.dirname(os.path.abspath(__file__)))
REPO = os.path.abspath(os.environ.get('VERIF_REPO', '/repo'))
if REPO == '/repo':
    TARGET = os.path.join(VERIF, '.target')
    WORK = os.path.join(VERIF, '.work')
    HARNESS = os.path.join(VERIF, 'harness')
else:
    # self tests against a scratch copy of the repository (VERIF_REPO=<dir>): everything that is built or
    # written (evidence and replay files included) lives under <dir>/.verif so that it disappears with the
    # scratch copy; the registered checks never use this
    TARGET = os.path.join(REPO, '.verif', 'target')
    WORK = os.path.join(REPO, '.verif', 'work')
    HARNESS = os.path.join(REPO, '.verif', 'harness')
OUTDIR = VERIF if REPO == '/repo' else os.path.join(REPO, '.verif', 'out')
NWORKERS = int(os.environ.get('VERIF_WORKERS', '16'))
CALL_WATCHDOG_S = 120.0

OFFLINE_ENV = {'CARGO_NET_OFFLINE': 'true'}


def log(*a):
    print(*a, flush=True)


# --------------------------------------------------------------------------------------------
# builds

class BuildError(Exception):
    pass


class InitFailed(Exception):
    """the driver built, but the library dies while initialising its tables (driver `info`)"""
    pass


def _run_build(cmd, cwd, env_extra=None, what='build'):
    env = dict(os.environ)
    env.update(OFFLINE_ENV)
    env.pop('RUSTFLAGS', None)
    if env_extra:
        env.update(env_extra)
    os.makedirs(WORK, exist_ok=True)
    lock = open(os.path.join(WORK, 'build.lock'), 'w')
    fcntl.flock(lock, fcntl.LOCK_EX)
    try:
        t = time.time()
        r = subprocess.run(cmd, cwd=cwd, env=env, stdout=subprocess.PIPE, stderr=subprocess.STDOUT)
        if r.returncode != 0:
            raise BuildError('%s failed (%s):\n%s' % (what, ' '.join(cmd), r.stdout.decode('utf-8', 'replace')[-4000:]))
        return time.time() - t
    finally:
        fcntl.flock(lock, fcntl.LOCK_UN)
        lock.close()


def _shadow_harness():
    """for VERIF_REPO: a copy of the driver crate whose path dependency points at the scratch copy"""
    src = os.path.join(VERIF, 'harness')
    if HARNESS == src:
        return
    os.makedirs(os.path.join(HARNESS, 'src'), exist_ok=True)
    toml = open(os.path.join(src, 'Cargo.toml')).read().replace('/repo/crates/svgbob', os.path.join(REPO, 'crates/svgbob'))
    for rel, data in (('Cargo.toml', toml), ('src/main.rs', open(os.path.join(src, 'src/main.rs')).read())):
        dst = os.path.join(HARNESS, rel)
        if not os.path.exists(dst) or open(dst).read() != data:
            open(dst, 'w').write(data)


def _sync_lock():
    """the driver resolves its dependencies with the repository's lock file"""
    _shadow_harness()
    src = os.path.join(REPO, 'Cargo.lock')
    dst = os.path.join(HARNESS, 'Cargo.lock')
    try:
        data = open(src, 'rb').read()
    except OSError:
        return
    # the lock file of the harness has one more package (itself); cargo adds it offline
    if not os.path.exists(dst):
        open(dst, 'wb').write(data)


def build_driver(profile='release'):
    """build the driver from /repo's current working tree, returns the path of the binary"""
    _sync_lock()
    cmd = ['cargo', 'build', '--offline', '--profile', profile, '--target-dir', TARGET]
    _run_build(cmd, HARNESS, what='driver build')
    sub = 'release' if profile == 'release' else profile
    path = os.path.join(TARGET, sub, 'svgbob-verif-driver')
    if not os.path.exists(path):
        raise BuildError('driver binary missing: ' + path)
    return path


def build_repo_bins():
    """build svgbob_cli and svgbob_server from the tree (without LTO: 85 s per rebuild otherwise)"""
    cmd = ['cargo', 'build', '--offline', '--release', '-p', 'svgbob_cli', '-p', 'svgbob_server',
           '--target-dir', os.path.join(TARGET, 'repo'),
           '--config', 'profile.release.lto=false', '--config', 'profile.release.codegen-units=16']
    _run_build(cmd, REPO, what='cli/server build')
    d = os.path.join(TARGET, 'repo', 'release')
    return os.path.join(d, 'svgbob_cli'), os.path.join(d, 'svgbob_server')


# --------------------------------------------------------------------------------------------
# driver client

class DriverDied(Exception):
    def __init__(self, status, why=''):
        Exception.__init__(self, 'driver died: status=%r %s' % (status, why))
        self.status = status
        self.why = why


class Watchdog(Exception):
    pass


class Result:
    __slots__ = ('status', 'out', 'merge_attempts', 'merge_passes', 'enclose_passes', 'max_depth',
                 'prop_buffers', 'prop_order_hash', 'prop_cells_max', 'noise', 'elapsed_ns', 'events')

    @property
    def ok(self):
        return self.status == 0

    def fail_text(self):
        return {1: 'panic: ', 2: 'fuse: '}.get(self.status, '') + self.out[:300]


DEFAULTS = dict(entry=3, flags=0, scale=8.0, sw=2.0, ow=0.0, oh=0.0, fs=14, ff='Iosevka Fixed, monospace',
                fill='black', bg='white', sc='black', step_budget=0, depth_budget=0)

ENTRY_NAMES = ['to_svg', 'to_svg_string_pretty', 'to_svg_string_compressed', 'to_svg_with_settings',
               'to_svg_with_override_size', 'CellBuffer::from + get_node_with_size twice (entry 5: first render at scale `ow` with the switches inverted)',
               'CellBuffer converted, edited through DerefMut to hold the cells of a second document, converted again (entry 6: input = first U+001E second)',
               'CellBuffer::get_fragment_spans + CellBuffer::fragments_to_node (entry 7: canvas ow x oh, no legend css, rejected groups not drawn)',
               'StringBuffer::new + add_char per character in an order shuffled by the seed `ow`, some cells overwritten; CellBuffer::from(StringBuffer) + get_node_with_size (entry 8)']


def _s(x):
    b = x.encode('utf-8')
    return struct.pack('<I', len(b)) + b


class Driver:
    def __init__(self, binary, env=None, asan=False):
        os.makedirs(WORK, exist_ok=True)
        self.binary = binary
        self.env = env
        self.p = None
        self.start()

    def start(self):
        r, w = os.pipe()
        self.noise_file = tempfile.NamedTemporaryFile(prefix='drvout-', dir=WORK, delete=True)
        env = dict(os.environ)
        env.pop('RUST_BACKTRACE', None)
        if self.env:
            env.update(self.env)
        self.err_file = tempfile.TemporaryFile(dir=WORK)
        self.p = subprocess.Popen([self.binary, 'serve', str(w)], stdin=subprocess.PIPE,
                                  stdout=self.noise_file.file, stderr=self.err_file, pass_fds=(w,), env=env)
        os.close(w)
        self.rfd = r
        self.buf = b''
        self.noise_pos = 0
        self.warmed = False
        # the conversions this process has served, most recent last (bounded): a disagreement that does not
        # reproduce on a fresh process is replayed together with this history
        self.history = []

    def close(self):
        if self.p is None:
            return
        try:
            self.p.stdin.close()
        except Exception:
            pass
        try:
            self.p.wait(timeout=5)
        except Exception:
            self.p.kill()
            self.p.wait()
        try:
            os.close(self.rfd)
        except OSError:
            pass
        self.noise_file.close()
        self.err_file.close()
        self.p = None

    def restart(self):
        try:
            if self.p is not None:
                self.p.kill()
                self.p.wait()
                os.close(self.rfd)
                self.noise_file.close()
                self.err_file.close()
        except Exception:
            pass
        self.p = None
        self.start()

    def stderr_tail(self, n=3000):
        try:
            self.err_file.seek(0)
            return self.err_file.read().decode('utf-8', 'replace')[-n:]
        except Exception:
            return ''

    def _read(self, n, deadline):
        while len(self.buf) < n:
            to = deadline - time.time()
            if to <= 0:
                raise Watchdog()
            rl, _, _ = select.select([self.rfd], [], [], min(to, 5.0))
            if not rl:
                if self.p.poll() is not None:
                    # drain what is left
                    chunk = os.read(self.rfd, 1 << 20)
                    if chunk:
                        self.buf += chunk
                        continue
                    raise DriverDied(self.p.returncode, self.stderr_tail())
                continue
            chunk = os.read(self.rfd, 1 << 20)
            if not chunk:
                self.p.wait()
                raise DriverDied(self.p.returncode, self.stderr_tail())
            self.buf += chunk
        out, self.buf = self.buf[:n], self.buf[n:]
        return out

    def conv(self, inp, watchdog=CALL_WATCHDOG_S, record=False, **kw):
        """one conversion; raises DriverDied / Watchdog"""
        a = dict(DEFAULTS)
        a.update(kw)
        self.history.append((inp, dict(kw), record))
        if len(self.history) > 48:
            del self.history[:-48]
        flags = a['flags'] | (8 if record else 0)
        msg = (struct.pack('<I', 0) + struct.pack('<IIffffQQI', a['entry'], flags, a['scale'], a['sw'], a['ow'], a['oh'],
                                                  a['fs'], a['step_budget'], a['depth_budget'])
               + _s(a['ff']) + _s(a['fill']) + _s(a['bg']) + _s(a['sc']) + _s(inp))
        try:
            self.p.stdin.write(msg)
            self.p.stdin.flush()
        except (BrokenPipeError, OSError):
            self.p.wait()
            raise DriverDied(self.p.returncode, self.stderr_tail())
        deadline = time.time() + watchdog
        r = Result()
        r.status = self._read(1, deadline)[0]
        n = struct.unpack('<I', self._read(4, deadline))[0]
        r.out = self._read(n, deadline).decode('utf-8', 'surrogateescape')
        (r.merge_attempts, r.merge_passes, r.enclose_passes, r.max_depth, r.prop_buffers, r.prop_order_hash,
         r.prop_cells_max, pos, r.elapsed_ns) = struct.unpack('<9Q', self._read(72, deadline))
        ne = struct.unpack('<I', self._read(4, deadline))[0]
        r.events = []
        for _ in range(ne):
            k = struct.unpack('<I', self._read(4, deadline))[0]
            r.events.append(self._read(k, deadline).decode('utf-8', 'replace'))
        r.noise = pos - self.noise_pos
        self.noise_pos = pos
        return r

    def init_log(self):
        self.p.stdin.write(struct.pack('<I', 1))
        self.p.stdin.flush()
        deadline = time.time() + 30
        n = struct.unpack('<I', self._read(4, deadline))[0]
        txt = self._read(n, deadline).decode()
        return [tuple(l.split(' ', 2)) for l in txt.split('\n') if l]


def driver_info(binary):
    """the drawing character tables and the circle catalogue of the tree under test"""
    r = subprocess.run([binary, 'info'], stdout=subprocess.PIPE, stderr=subprocess.PIPE, timeout=120)
    if r.returncode != 0:
        raise InitFailed('status %s: %s' % (r.returncode, r.stderr.decode('utf-8', 'replace')[-1500:]))
    txt = r.stdout.decode('utf-8')
    info = {'circles': []}
    cur = None
    for line in txt.split('\n'):
        if line.startswith('ASCII '):
            info['ascii'] = line[6:]
        elif line.startswith('UNICODE_PROPERTIES '):
            info['unicode_properties'] = line[len('UNICODE_PROPERTIES '):]
        elif line.startswith('UNICODE_FRAGMENTS '):
            info['unicode_fragments'] = line[len('UNICODE_FRAGMENTS '):]
        elif line.startswith('CIRCLES '):
            info['ncircles'] = int(line.split()[1])
        elif line.startswith('#CIRCLE'):
            cur = []
            info['circles'].append(cur)
        elif cur is not None and line.strip() != '':
            cur.append(line)
    return info


# --------------------------------------------------------------------------------------------
# XML: event stream and canonical scene

SVGNS = 'http://www.w3.org/2000/svg'


class Malformed(Exception):
    pass


class Node:
    __slots__ = ('ns', 'name', 'attrs', 'kids', 'text', 'tail_chunks')

    def __init__(self, ns, name, attrs):
        self.ns, self.name, self.attrs, self.kids, self.text = ns, name, attrs, [], ''


def xml_events(doc):
    """expat event stream of a document: (kind, ...) tuples; raises Malformed"""
    evs = []
    p = expat.ParserCreate(namespace_separator=' ')
    p.ordered_attributes = False
    p.buffer_text = True
    p.StartElementHandler = lambda n, a: evs.append(('start', n, a))
    p.EndElementHandler = lambda n: evs.append(('end', n))
    p.CharacterDataHandler = lambda c: evs.append(('chars', c))
    p.CommentHandler = lambda c: evs.append(('comment', c))
    p.ProcessingInstructionHandler = lambda t, d: evs.append(('pi', t, d))
    p.StartDoctypeDeclHandler = lambda *a: evs.append(('doctype',) + a)
    p.StartCdataSectionHandler = lambda: evs.append(('cdata',))
    p.SkippedEntityHandler = lambda n, i: evs.append(('entity', n))
    p.DefaultHandler = None
    try:
        p.Parse(doc.encode('utf-8', 'surrogatepass') if isinstance(doc, str) else doc, True)
    except expat.ExpatError as e:
        raise Malformed(str(e))
    except UnicodeEncodeError as e:
        raise Malformed('not utf-8: %s' % e)
    return evs


def xml_tree(doc):
    """document tree from the event stream; character data is attached to the enclosing element"""
    root = None
    stack = []
    for e in xml_events(doc):
        if e[0] == 'start':
            ns, _, name = e[1].rpartition(' ')
            n = Node(ns, name, dict(e[2]))
            if stack:
                stack[-1].kids.append(n)
            else:
                if root is not None:
                    raise Malformed('two roots')
                root = n
            stack.append(n)
        elif e[0] == 'end':
            stack.pop()
        elif e[0] == 'chars':
            if stack:
                stack[-1].text += e[1]
    if root is None:
        raise Malformed('no root')
    return root


_NUM = re.compile(r'^-?(\d+\.?\d*|\.\d+)([eE][-+]?\d+)?$')


def num(s):
    """exact rational value of a printed number"""
    if not _NUM.match(s):
        raise Malformed('not a finite decimal: %r' % (s,))
    return F(s)


_PATH = re.compile(r'^M (\S+),(\S+) A (\S+),(\S+) (\d),(\d),(\d) (\S+),(\S+)$')


def canon_el(n, dx=F(0), dy=F(0), sc=F(1)):
    t = n.name
    a = n.attrs

    def X(v): return (num(v) - dx) / sc

    def Y(v): return (num(v) - dy) / sc

    def L(v): return num(v) / sc
    cls = tuple(sorted((a.get('class') or '').split()))
    if t == 'line':
        return ('line', cls, X(a['x1']), Y(a['y1']), X(a['x2']), Y(a['y2']))
    if t == 'rect':
        return ('rect', cls, X(a['x']), Y(a['y']), L(a['width']), L(a['height']), L(a.get('rx', '0')))
    if t == 'circle':
        return ('circle', cls, X(a['cx']), Y(a['cy']), L(a['r']))
    if t == 'text':
        return ('text', cls, X(a['x']), Y(a['y']), n.text)
    if t == 'polygon':
        pts = tuple((X(p.split(',')[0]), Y(p.split(',')[1])) for p in a['points'].split())
        return ('polygon', cls, pts)
    if t == 'path':
        m = _PATH.match(a['d'])
        if not m:
            raise Malformed('path d %r' % a['d'])
        return ('path', cls, X(m[1]), Y(m[2]), L(m[3]), L(m[4]), m[5], m[6], m[7], X(m[8]), Y(m[9]))
    if t == 'g':
        return ('g', tuple(sorted((canon_el(k, dx, dy, sc) for k in n.kids), key=repr)))
    return ('other', t, tuple(sorted(a.items())), n.text)


class Scene:
    """canonical content of a document: canvas and the drawn elements (style, defs, backdrop apart)"""

    def __init__(self, doc, dx=0, dy=0, sc=1):
        root = xml_tree(doc)
        self.root = root
        if root.name != 'svg' or root.ns != SVGNS:
            raise Malformed('root is %r in %r' % (root.name, root.ns))
        self.W = num(root.attrs.get('width', ''))
        self.H = num(root.attrs.get('height', ''))
        self.style = [k for k in root.kids if k.name == 'style']
        self.defs = [k for k in root.kids if k.name == 'defs']
        self.backdrop = [k for k in root.kids if k.name == 'rect' and 'backdrop' in (k.attrs.get('class') or '').split()]
        body = [k for k in root.kids if k.name not in ('style', 'defs') and k not in self.backdrop]
        self.els = [canon_el(k, F(dx), F(dy), F(sc)) for k in body]

    def sorted(self):
        return sorted(self.els, key=repr)

    def flat(self):
        """all drawn elements, the members of groups (at any depth) included and flagged; the <g> elements themselves
        are not listed: how svgbob groups its output is not part of any property"""
        out = []

        def rec(e, ing):
            if e[0] == 'g':
                for m in e[1]:
                    rec(m, True)
            else:
                out.append((e, ing))
        for e in self.els:
            rec(e, False)
        return out

    def leaves(self):
        return [e for e, _ in self.flat()]


def approx_eq(a, b, tol):
    if type(a) != type(b):
        return False
    if isinstance(a, tuple) and len(a) == 2 and a[0] == 'g' and len(b) == 2 and b[0] == 'g':
        # the members of a group in any order (their canonical order is by printed value, which rounding noise can permute)
        if len(a[1]) != len(b[1]):
            return False
        ua, ub = multiset_match(list(a[1]), list(b[1]), tol)
        return not ua and not ub
    if isinstance(a, tuple):
        return len(a) == len(b) and all(approx_eq(x, y, tol) for x, y in zip(a, b))
    if isinstance(a, F):
        return abs(a - b) <= tol
    return a == b


def skeleton(e):
    """the non numeric part of an element: kind, classes, flags, text"""
    if e[0] == 'g':
        return ('g', tuple(sorted((skeleton(m) for m in e[1]), key=repr)))
    return tuple(x if not isinstance(x, F) else None for x in e[:2]) + tuple(
        x for x in e[2:] if isinstance(x, str)) + ((len(e[2]),) if e[0] == 'polygon' else ())


def multiset_match(A, B, tol):
    """tolerant multiset matching of canonical elements; returns (unmatched_a, unmatched_b)"""
    rest = list(B)
    ua = []
    for a in A:
        for j, b in enumerate(rest):
            if a == b:
                rest.pop(j)
                break
        else:
            ua.append(a)
    if tol == 0 or not ua:
        return ua, rest
    ua2 = []
    for a in ua:
        for j, b in enumerate(rest):
            if approx_eq(a, b, tol):
                rest.pop(j)
                break
        else:
            ua2.append(a)
    return ua2, rest


def show_el(e, limit=200):
    def f(x):
        if isinstance(x, F):
            return ('%g' % float(x))
        if isinstance(x, tuple):
            return '(' + ','.join(f(y) for y in x) + ')'
        return repr(x) if isinstance(x, str) else str(x)
    return f(e)[:limit]


# --------------------------------------------------------------------------------------------
# text helpers

def cw(ch):
    """display columns of a character, as the string buffer of svgbob lays it out"""
    return 2 if unicodedata.east_asian_width(ch) in 'WF' else 1


def key_of(*parts):
    h = hashlib.blake2b(digest_size=8)
    for p in parts:
        h.update(repr(p).encode('utf-8', 'surrogatepass'))
        h.update(b'\0')
    return h.digest()


# --------------------------------------------------------------------------------------------
# runner

class Ctx:
    """what a shard function gets: a driver, a PRNG, and the recording interface"""

    def __init__(self, module, binary, tier, seed, extra=None):
        self.module = module
        self.binary = binary
        self.tier = tier
        self.seed = seed
        self.extra = extra or {}
        self.drv = None
        self.known_sigs = set(k['signature'] for k in load_known(module.ID))
        self.reset()

    def reset(self):
        self.evals = 0
        self.keys = set()
        self.tags = Counter()
        self.samples = []
        self.violations = []
        self.inconclusive = Counter()
        self.calls = 0
        self.noise_calls = 0
        self.maxima = {}
        self.hang_confirmed = False

    def maxi(self, name, value):
        if value > self.maxima.get(name, float('-inf')):
            self.maxima[name] = value

    def driver(self):
        if self.drv is None:
            self.drv = Driver(self.binary, env=self.extra.get('driver_env'))
        return self.drv

    def warm(self):
        """initialize the lazy tables of the driver process, outside any step budget"""
        d = self.driver()
        if not getattr(d, 'warmed', False):
            d.conv('+-+\n')
            d.warmed = True

    def anchor(self):
        """(dx, dy): where inside its cell the tree under test anchors a text element at the default scale,
        measured once per worker on a one-letter document (2, 12 on the pinned tree). The properties only say
        "inside the cell of its first character"; the checks that map text elements back to cells use this."""
        a = self.extra.get('_anchor')
        if a is None:
            a = (F(2), F(12))
            try:
                r = self.driver().conv('\n\n  a\n')
                if r.ok:
                    ts = [e for e, _ in Scene(r.out).flat() if e[0] == 'text' and e[4] == 'a']
                    if len(ts) == 1:
                        a = (ts[0][2] - 16, ts[0][3] - 32)
            except Malformed:
                pass
            self.extra['_anchor'] = a
        return a

    def conv(self, inp, **kw):
        d = self.driver()
        self.calls += 1
        r = d.conv(inp, **kw)
        if r.noise:
            self.noise_calls += 1
        return r

    # recording ------------------------------------------------------------------------------
    def note(self, key, nontrivial, *tags):
        self.evals += 1
        if nontrivial:
            self.keys.add(key)
        for t in tags:
            self.tags[t] += 1

    def tag(self, t, n=1):
        self.tags[t] += n

    def sample(self, obj, every=1):
        if len(self.samples) < 3:
            self.samples.append(obj)

    def run_case(self, case):
        """check one case; a disagreement counts only if it reproduces on a fresh driver"""
        mod = self.module
        if getattr(self, 'hang_confirmed', False):
            # a conversion of this shard did not return twice within its watchdog: the verdict is in, the remaining
            # cases of the shard are skipped rather than each waited for
            self.tags['cases_skipped_after_a_hang'] += 1
            return None
        try:
            msg = mod.check_case(self, case)
        except (DriverDied, Watchdog) as e:
            msg = self._after_crash(case, e)
            return msg
        if msg is None:
            return None
        if isinstance(msg, tuple) and msg[1] in self.known_sigs:
            # a listed known finding: recorded, not re-confirmed on a fresh driver
            self._violation(case, msg)
            return msg
        if getattr(mod, 'CONFIRM', True):
            # confirm on a fresh driver
            try:
                history = list(self.drv.history)
                self.drv.restart()
                snapshot = (self.evals, set(self.keys), Counter(self.tags))
                msg2 = mod.check_case(self, case)
                self.evals, self.keys, self.tags = snapshot
                if msg2 is None:
                    # not reproducible from a fresh process: is it the conversions served before this case?
                    ncalls = len(self.drv.history)
                    prior = history[:len(history) - ncalls] if ncalls <= len(history) else []
                    self.drv.restart()
                    for (inp, kw, record) in prior:
                        self.drv.conv(inp, record=record, **kw)
                    snapshot = (self.evals, set(self.keys), Counter(self.tags))
                    msg3 = mod.check_case(self, case)
                    self.evals, self.keys, self.tags = snapshot
                    if msg3 is not None:
                        case = dict(case)
                        case['_history'] = [{'input': i, 'kw': k} for (i, k, r) in prior]
                        msg2 = ('%s -- only after the %d conversions this process served before (a fresh process converts '
                                'this input correctly): the result depends on the history' % (msg3 if isinstance(msg3, str) else msg3[0], len(prior)))
            except (DriverDied, Watchdog) as e:
                return self._after_crash(case, e)
            if msg2 is None:
                self.inconclusive['disagreement did not reproduce, neither on a fresh driver nor with the recorded history'] += 1
                return None
            msg = msg2
        self._violation(case, msg)
        return msg

    def _after_crash(self, case, e):
        """the driver died or hung on this case: re-run the single case in a fresh driver"""
        first = 'watchdog' if isinstance(e, Watchdog) else 'died(%s)' % getattr(e, 'status', '?')
        why = getattr(e, 'why', '')
        for attempt in range(2):
            try:
                self.drv.restart()
                snapshot = (self.evals, set(self.keys), Counter(self.tags))
                msg = self.module.check_case(self, case)
                self.evals, self.keys, self.tags = snapshot
                self.inconclusive['driver %s, not reproduced' % first] += 1
                if msg is not None:
                    self._violation(case, msg)
                return msg
            except DriverDied as e2:
                if attempt == 1 or True:
                    msg = 'conversion kills the process (status %s, twice): %s' % (e2.status, (e2.why or why)[-600:])
                    self.drv.restart()
                    self._violation(case, msg, sig='crash')
                    return msg
            except Watchdog:
                self.drv.restart()
                if first == 'watchdog':
                    msg = 'conversion does not return within %d s (twice)' % (case.get('watchdog', CALL_WATCHDOG_S) if isinstance(case, dict) else CALL_WATCHDOG_S)
                    if getattr(self.module, 'HANG_IS_VIOLATION', False):
                        self._violation(case, msg, sig='hang')
                        self.hang_confirmed = True
                        return msg
                self.inconclusive['watchdog'] += 1
                return None
        return None

    def _violation(self, case, msg, sig=None):
        if isinstance(msg, tuple):
            msg, sig = msg
        s = sig
        if s is None and hasattr(self.module, 'classify'):
            try:
                s = self.module.classify(case, msg)
            except Exception:
                s = None
        self.violations.append({'case': case, 'message': msg, 'signature': s})

    def result(self):
        if self.drv is not None:
            self.drv.close()
            self.drv = None
        return {'evals': self.evals, 'keys': b''.join(sorted(self.keys)), 'tags': dict(self.tags),
                'samples': self.samples, 'violations': self.violations[:50], 'nviol': len(self.violations),
                'inconclusive': dict(self.inconclusive), 'calls': self.calls, 'noise_calls': self.noise_calls,
                'maxima': self.maxima}


_G = {}


def _worker_init(modname, binary, tier, seed, extra):
    signal.signal(signal.SIGINT, signal.SIG_IGN)
    sys.path.insert(0, os.path.join(VERIF, 'monitors'))
    mod = __import__(modname)
    _G['ctx'] = Ctx(mod, binary, tier, seed, extra)


def _worker_run(shard):
    ctx = _G['ctx']
    ctx.reset()
    t = time.time()
    try:
        ctx.module.run_shard(ctx, shard)
    except Exception:
        ctx.inconclusive['harness error: ' + traceback.format_exc()[-1500:]] += 1
    res = ctx.result()
    res['shard'] = shard.get('name', '?') if isinstance(shard, dict) else str(shard)
    res['wall'] = time.time() - t
    return res


def load_known(prop):
    path = os.path.join(VERIF, 'known_findings.json')
    try:
        data = json.load(open(path))
    except OSError:
        return []
    return [k for k in data.get('known', []) if k.get('property') == prop]


def _jd(o):
    if isinstance(o, (set, frozenset)):
        return sorted(o)
    return str(o)


class Run:
    """one run of a check: aggregates shards, decides the verdict, writes evidence"""

    def __init__(self, module, tier, seed):
        self.module = module
        self.prop = module.ID
        self.tier = tier
        self.seed = seed
        self.t0 = time.time()
        self.evals = 0
        self.keys = set()
        self.tags = Counter()
        self.samples = []
        self.violations = []
        self.nviol = 0
        self.inconclusive = Counter()
        self.calls = 0
        self.noise_calls = 0
        self.extra_cov = {}
        self.maxima = {}
        self.assumptions = list(getattr(module, 'ASSUMPTIONS', []))
        self.fatal = None

    def absorb(self, res):
        self.evals += res['evals']
        k = res['keys']
        for i in range(0, len(k), 8):
            self.keys.add(k[i:i + 8])
        self.tags.update(res['tags'])
        for s in res['samples']:
            if len(self.samples) < 6:
                self.samples.append(s)
        self.violations += res['violations']
        self.nviol += res['nviol']
        self.inconclusive.update(res['inconclusive'])
        self.calls += res['calls']
        self.noise_calls += res['noise_calls']
        for k, v in res.get('maxima', {}).items():
            if v > self.maxima.get(k, float('-inf')):
                self.maxima[k] = v

    def run_shards(self, binary, shards, extra=None, workers=None):
        if not shards:
            return
        workers = min(workers or NWORKERS, len(shards))
        modname = self.module.__name__
        with mp.Pool(workers, initializer=_worker_init, initargs=(modname, binary, self.tier, self.seed, extra)) as pool:
            for res in pool.imap_unordered(_worker_run, shards, chunksize=1):
                self.absorb(res)
                if os.environ.get('VERIF_VERBOSE'):
                    log('  shard %s: %d evals, %d violations, %.1fs' % (res['shard'], res['evals'], res['nviol'], res['wall']))

    def local_ctx(self, binary, extra=None):
        return Ctx(self.module, binary, self.tier, self.seed, extra)

    # ---------------------------------------------------------------------------------------
    def finish(self):
        mod = self.module
        prop = self.prop
        known = load_known(prop)
        known_sigs = {k['signature']: k for k in known}
        real = []
        known_hits = Counter()
        for v in self.violations:
            if v.get('signature') in known_sigs:
                known_hits[v['signature']] += 1
            else:
                real.append(v)
        # violations beyond the 50 kept per shard are counted but have no witness: they are of
        # the kinds already listed
        os.makedirs(os.path.join(OUTDIR, 'replay'), exist_ok=True)
        lines = []
        seen = set()
        for v in real:
            h = hashlib.sha256(json.dumps(v['case'], sort_keys=True, ensure_ascii=True, default=_jd).encode()).hexdigest()[:12]
            if h in seen:
                continue
            seen.add(h)
            if len(lines) >= 20:
                continue
            path = os.path.join(OUTDIR, 'replay', '%s-%s.json' % (prop, h))
            json.dump({'property': prop, 'tier': self.tier, 'seed': self.seed, 'case': v['case'],
                       'message': v['message']}, open(path, 'w'), indent=1, ensure_ascii=True, default=_jd)
            lines.append((path, v['message']))
        floors_failed = []
        floors = dict(getattr(mod, 'FLOORS', {}).get(self.tier, {}))
        for name in getattr(self, 'floors_not_applicable', {}):
            floors.pop(name, None)
        for name, need in floors.items():
            have = {'evaluations': self.evals, 'distinct_nontrivial': len(self.keys)}.get(name, self.tags.get(name, 0))
            if have < need:
                floors_failed.append('%s=%d < %d' % (name, have, need))
        cov = {
            'evaluations': self.evals,
            'distinct_nontrivial': len(self.keys),
            'rule': getattr(mod, 'RULE', ''),
            'samples': self.samples[:6] or ['<none>'],
            'exhaustive': False,
            'observations': dict(sorted(self.tags.items())),
            'maxima': self.maxima,
            'driver_calls': self.calls,
            'calls_with_library_stdout_noise': self.noise_calls,
            'inconclusive': dict(self.inconclusive),
            'known_findings_hit': dict(known_hits),
            'floors': floors,
            'floors_failed': floors_failed,
        }
        cov.update(self.extra_cov)
        ev = {
            'property_id': prop, 'tier': self.tier, 'seed': self.seed, 'level': getattr(mod, 'LEVEL', 'exploration'),
            'coverage': cov, 'assumptions': self.assumptions, 'wall_s': round(time.time() - self.t0, 2),
            'violations': len(seen),
        }
        os.makedirs(os.path.join(OUTDIR, 'evidence'), exist_ok=True)
        json.dump(ev, open(os.path.join(OUTDIR, 'evidence', prop + '.json'), 'w'), indent=1, ensure_ascii=True, default=str)
        if self.tier == 'thorough':
            # the last thorough run is kept next to the evidence file, which the next quick run rewrites
            os.makedirs(os.path.join(OUTDIR, 'evidence', 'thorough'), exist_ok=True)
            json.dump(ev, open(os.path.join(OUTDIR, 'evidence', 'thorough', prop + '.json'), 'w'), indent=1, ensure_ascii=True, default=str)
        log('%s %s seed=%d: %d evaluations, %d distinct non-trivial, %d driver calls, %.1fs' % (
            prop, self.tier, self.seed, self.evals, len(self.keys), self.calls, time.time() - self.t0))
        obs = ', '.join('%s=%d' % kv for kv in sorted(self.tags.items()))
        if obs:
            log('observed: ' + obs)
        if self.maxima:
            log('maxima: ' + ', '.join('%s=%s' % kv for kv in sorted(self.maxima.items())))
        for reason, n in self.inconclusive.items():
            log('INCONCLUSIVE: %d cases: %s' % (n, reason))
        for sig, n in known_hits.items():
            log('KNOWN-FINDING: property=%s %s (%d cases this run; %s)' % (prop, sig, n, known_sigs[sig].get('what', '')))
        for path, msg in lines:
            log('VIOLATION property=%s replay=%s' % (prop, path))
            log('  ' + msg.replace('\n', '\n  ')[:1500])
        if len(seen) > len(lines):
            log('  (%d further distinct violating cases not written out)' % (len(seen) - len(lines)))
        if lines:
            return 1
        if self.fatal:
            log('INCONCLUSIVE: ' + self.fatal)
            return 2
        if floors_failed or self.evals == 0:
            log('INCONCLUSIVE: the run observed too little: ' + ', '.join(floors_failed or ['no evaluations']))
            return 2
        log('%s: held on everything explored' % prop)
        return 0


def rng_for(seed, *parts):
    return random.Random(hashlib.sha256(repr((seed,) + parts).encode()).digest())


def main(module):
    """entry point of a property module: python3 cNN.py --tier quick|thorough [--replay FILE]"""
    import argparse
    ap = argparse.ArgumentParser()
    ap.add_argument('--tier', default=os.environ.get('VERIF_TIER', 'quick'))
    ap.add_argument('--replay')
    args = ap.parse_args()
    seed = int(os.environ.get('VERIF_SEED', '1'))
    tier = args.tier if args.tier in ('quick', 'thorough') else 'quick'
    try:
        if args.replay:
            return replay(module, args.replay)
        run = Run(module, tier, seed)
        try:
            module.execute(run)
        except BuildError as e:
            log(str(e))
            run.fatal = 'the code under test does not build'
        except InitFailed as e:
            # no conversion can succeed in a process whose tables do not initialise: the property does not hold
            run.violations.append({'case': {'driver': 'info'}, 'signature': None,
                                   'message': 'the library dies while initialising its drawing tables, before any conversion: %s' % e})
            run.nviol += 1
            run.evals = max(run.evals, 1)
        return run.finish()
    except KeyboardInterrupt:
        return 130


def replay(module, path):
    rec = json.load(open(path))
    case = rec['case']
    log('replaying %s (%s seed=%s)' % (path, rec.get('tier'), rec.get('seed')))
    binary = build_driver()
    ctx = Ctx(module, binary, rec.get('tier', 'quick'), rec.get('seed', 1), module.replay_extra(binary) if hasattr(module, 'replay_extra') else None)
    if case.get('_history'):
        d = ctx.driver()
        for h in case['_history']:
            d.conv(h['input'], **h['kw'])
        log('replayed the %d conversions the process had served before' % len(case['_history']))
    if case.get('driver') == 'info':
        try:
            driver_info(binary)
            msg = None
        except InitFailed as e:
            msg = 'the library dies while initialising its drawing tables: %s' % e
    elif hasattr(module, 'replay_case'):
        msg = module.replay_case(ctx, case)
    else:
        try:
            msg = module.check_case(ctx, case)
        except DriverDied as e:
            msg = 'driver died: %s' % e
        except Watchdog:
            msg = 'watchdog expired'
    log('case: ' + json.dumps(case, ensure_ascii=False)[:3000])
    if msg:
        log('VIOLATION property=%s replay=%s' % (module.ID, path))
        log('  ' + msg)
        return 1
    log('no violation on this tree')
    return 0


# --------------------------------------------------------------------------------------------
# arc geometry (SVG implementation notes F.6.5), floats

import math


def arc_center(x1, y1, r, large, sweep, x2, y2):
    """centre and the (possibly enlarged) radius of the circular arc of an svg path"""
    x1, y1, r, x2, y2 = map(float, (x1, y1, r, x2, y2))
    dx = (x1 - x2) / 2
    dy = (y1 - y2) / 2
    d2 = dx * dx + dy * dy
    if d2 == 0 or r == 0:
        return (x1, y1), r
    rr = r
    lam = d2 / (rr * rr)
    if lam > 1:
        rr = rr * math.sqrt(lam)
    num_ = max(0.0, rr ** 4 - rr * rr * dy * dy - rr * rr * dx * dx)
    den = rr * rr * dy * dy + rr * rr * dx * dx
    co = math.sqrt(num_ / den)
    if bool(int(large)) == bool(int(sweep)):
        co = -co
    cxp = co * dy
    cyp = -co * dx
    return (cxp + (x1 + x2) / 2, cyp + (y1 + y2) / 2), rr


def arc_bbox(x1, y1, r, large, sweep, x2, y2):
    (cx, cy), rr = arc_center(x1, y1, r, large, sweep, x2, y2)
    x1, y1, x2, y2 = map(float, (x1, y1, x2, y2))
    if rr == 0:
        return (min(x1, x2), min(y1, y2), max(x1, x2), max(y1, y2))
    a1 = math.atan2(y1 - cy, x1 - cx)
    a2 = math.atan2(y2 - cy, x2 - cx)
    da = a2 - a1
    sweep = bool(int(sweep))
    if sweep and da < 0:
        da += 2 * math.pi
    if not sweep and da > 0:
        da -= 2 * math.pi
    xs = [x1, x2]
    ys = [y1, y2]
    for k in range(-4, 5):
        ang = k * math.pi / 2
        t = ang - a1
        if da >= 0:
            t = t % (2 * math.pi)
            inside = t <= da
        else:
            t = (-t) % (2 * math.pi)
            inside = t <= -da
        if inside:
            xs.append(cx + rr * math.cos(ang))
            ys.append(cy + rr * math.sin(ang))
    return (min(xs), min(ys), max(xs), max(ys))
