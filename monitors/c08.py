"""C08 - input text can never inject markup into the output document.

Oracle: a whitelist automaton over the expat event stream of the output - element names, per-element
attribute names, value syntax of every non-class attribute, parent/child structure, no comment / processing
instruction / doctype / entity / CDATA event, character data only inside text and style - plus marker
tracing: a unique token MK<n> carried by the payload may only surface in character data of text/style, or in
a class attribute as part of an identifier token. "svgbob's own vocabulary" is the static list below joined
with whatever the tree under test emits for a payload-free reference corpus (so that a maintainer's new
attribute or marker is not mistaken for an injection); the defs subtree must equal the one the same tree
emits for a payload-free document.
"""
import json
import os
import re
import sys

import gen
from vlib import Malformed, VERIF, build_driver, driver_info, key_of, main, rng_for, xml_events, SVGNS

ID = 'C08'
LEVEL = 'exploration'
RULE = ('markup payloads (<script>, </style><script>, <a href>, on*= attributes, ]]>, <!--, <?..?>, &ent;, CDATA, numeric '
        'references, controls, random splices) with unique marker names x channels (plain cells, quoted strings, {tags} valid '
        'and invalid, legend names, legend declarations, text after the legend) x host diagrams (box, circle, random grid) x '
        'entry points x include_* sets; non-trivial = every distinct payload-carrying document')
ASSUMPTIONS = ['expat is a conforming XML parser; a document expat rejects counts as a violation here as well (nothing can be shown about it)',
               'the vocabulary is the static list in c08.py (also kept in data/vocabulary.json) joined with the elements, attributes, constant '
               'attribute values and nestings the tree under test emits for a payload-free reference corpus; the defs subtree is compared '
               'with the one the same tree emits for a payload-free document']
CHANNELS = ['plain', 'quoted', 'tag', 'tag_invalid', 'legname', 'legdecl', 'afterlegend']
FLOORS = {'quick': dict([('distinct_nontrivial', 3000)] + [('channel_' + c, 300) for c in CHANNELS]),
          'thorough': dict([('distinct_nontrivial', 100000)] + [('channel_' + c, 8000) for c in CHANNELS])}

NUM = r'-?\d+(\.\d+)?'
VALUE = {
    'x': NUM, 'y': NUM, 'x1': NUM, 'y1': NUM, 'x2': NUM, 'y2': NUM, 'cx': NUM, 'cy': NUM, 'r': NUM, 'rx': NUM, 'width': NUM, 'height': NUM,
    'points': r'(%s,%s)( %s,%s)*' % (NUM, NUM, NUM, NUM), 'd': r'M %s,%s A %s,%s [01],[01],[01] %s,%s' % ((NUM,) * 6),
    'xmlns': re.escape(SVGNS), 'id': r'arrow|diamond|circle|open_circle|big_open_circle', 'viewBox': r'-?\d+ -?\d+ \d+ \d+',
    'refX': r'\d+', 'refY': r'\d+', 'markerWidth': r'\d+', 'markerHeight': r'\d+', 'orient': 'auto-start-reverse',
}
VOC = {
    'svg': {'xmlns', 'width', 'height', 'class'}, 'style': set(), 'defs': set(),
    'marker': {'id', 'viewBox', 'refX', 'refY', 'markerWidth', 'markerHeight', 'orient'},
    'polygon': {'points', 'class'}, 'circle': {'cx', 'cy', 'r', 'class'}, 'rect': {'x', 'y', 'width', 'height', 'class', 'rx'},
    'line': {'x1', 'y1', 'x2', 'y2', 'class'}, 'path': {'d', 'class'}, 'text': {'x', 'y'}, 'g': set(),
}
PARENTS = {
    'svg': {None}, 'style': {'svg'}, 'defs': {'svg'}, 'marker': {'defs'}, 'polygon': {'svg', 'g', 'marker'}, 'circle': {'svg', 'g', 'marker'},
    'rect': {'svg', 'g'}, 'line': {'svg', 'g'}, 'path': {'svg', 'g'}, 'text': {'svg', 'g'}, 'g': {'svg'},
}
BAD_CLASS = re.compile(r'[<>&"\'=/\;:(){}\[\]]')


REFERENCE = ['+\n', 'abc d\n', '+--+\n|ab|\n+--+\n', '.--.\n|{a}|\n\'--\'\n# Legend:\na = {fill:red}\n', '-->  <--  ^  v\n     |   |\n', '*--o--O\n',
             '   ___\n ,\'   `.\n/       \\\n\\       /\n `.___.\'\n', ' .-\n/\n', '~~~ === ::: ___\n', '"quoted"  ▲ ● ○ ╭─╮\n', '/\\\n\\/\n', '']


def defs_of(evs):
    stack = []
    out = []
    for e in evs:
        if e[0] == 'start':
            name = e[1].rpartition(' ')[2]
            if 'defs' in stack:
                out.append(['start', name, [list(kv) for kv in sorted(e[2].items())]])
            stack.append(name)
        elif e[0] == 'end':
            stack.pop()
            if 'defs' in stack:
                out.append(['end', e[1].rpartition(' ')[2]])
    return out


def own_vocabulary(binary):
    """what the tree under test emits for payload-free documents: elements, attributes, constant values, nestings"""
    from vlib import Driver
    d = Driver(binary)
    voc = {}
    parents = {}
    values = {}
    defs = None
    for doc in REFERENCE:
        for kw in [{'entry': 0}, {'entry': 4, 'flags': 7, 'ow': 100.0, 'oh': 50.5}] + [{'entry': 3, 'flags': fl} for fl in range(8)]:
            r = d.conv(doc, **kw)
            if not r.ok:
                continue
            try:
                evs = xml_events(r.out)
            except Malformed:
                continue
            if defs is None:
                defs = defs_of(evs)
            stack = []
            for e in evs:
                if e[0] == 'start':
                    ns, _, name = e[1].rpartition(' ')
                    if ns == SVGNS:
                        voc.setdefault(name, set()).update(e[2].keys())
                        parents.setdefault(name, set()).add(stack[-1] if stack else None)
                        for an, av in e[2].items():
                            values.setdefault(name + ' ' + an, set()).add(av)
                    stack.append(name)
                elif e[0] == 'end':
                    stack.pop()
    d.close()
    return {'defs': defs or [], 'voc': {k: sorted(v) for k, v in voc.items()}, 'parents': {k: sorted(v, key=str) for k, v in parents.items()},
            'values': {k: sorted(v) for k, v in values.items()}}


_UNREP = re.compile('[\x00-\x08\x0b\x0c\x0e-\x1f\ufffe\uffff]')


def audit(doc, marker, own, source=None):
    """None or the description of the first event that is not svgbob's own vocabulary"""
    frozen = own['defs']
    ovoc, opar, oval = own['voc'], own['parents'], own['values']
    try:
        evs = xml_events(doc)
    except Malformed as e:
        return 'the output is not well-formed: %s' % e
    stack = []
    defs_evs = []
    roots = 0
    singles = {}
    for e in evs:
        k = e[0]
        if k == 'start' and 'defs' in stack:
            defs_evs.append(['start', e[1].rpartition(' ')[2], [list(kv) for kv in sorted(e[2].items())]])
        if k == 'end' and 'defs' in stack[:-1]:
            defs_evs.append(['end', e[1].rpartition(' ')[2]])
        if k == 'start':
            ns, _, name = e[1].rpartition(' ')
            if ns != SVGNS:
                return 'element %r outside the svg namespace' % e[1]
            if name not in VOC and name not in ovoc:
                return 'element <%s> is not part of svgbob\'s vocabulary' % name
            parent = stack[-1] if stack else None
            if parent not in PARENTS.get(name, ()) and parent not in opar.get(name, ()):
                return 'element <%s> inside <%s>' % (name, parent)
            if parent is None:
                roots += 1
            if name in ('style', 'defs'):
                singles[name] = singles.get(name, 0) + 1
                if singles[name] > 1:
                    return 'a second <%s> element' % name
            for an, av in e[2].items():
                if an not in VOC.get(name, ()) and an not in ovoc.get(name, ()):
                    return 'attribute %r on <%s>' % (an, name)
                if an == 'class':
                    for tok in av.split():
                        if BAD_CLASS.search(tok):
                            return 'class token %r on <%s> is not an identifier' % (tok, name)
                        if marker in tok and not re.fullmatch(r'\w+', tok):
                            return 'marker inside the non-identifier class token %r' % tok
                else:
                    if marker in av:
                        return 'the payload marker surfaces in attribute %s="%s"' % (an, av[:80])
                    if not (an in VALUE and re.fullmatch(VALUE[an], av)) and av not in oval.get(name + ' ' + an, ()) and not re.fullmatch(NUM, av):
                        return 'attribute %s="%s" on <%s> does not have the syntax svgbob writes' % (an, av[:80], name)
            stack.append(name)
        elif k == 'end':
            stack.pop()
        elif k == 'chars':
            if e[1].strip() and (not stack or stack[-1] not in ('text', 'style')):
                return 'character data %r inside <%s>' % (e[1][:60], stack[-1] if stack else None)
            if source is not None and stack and stack[-1] == 'text' and ('&' in e[1] or '<' in e[1] or '>' in e[1]) or False:
                # input characters surface as character data *as they are*: a reference the input spells out
                # (`&#60;`) is five characters of text, it must not come back as the character it names
                got = _UNREP.sub('', e[1]).replace('\r', '\n')
                if got.strip() and got.strip() not in source:
                    return 'character data %r of a text element is not a run of input characters (a reference written in the input was resolved?)' % e[1][:80]
        elif k in ('comment', 'pi', 'doctype', 'cdata', 'entity'):
            return 'a %s event: %r' % (k, e[1:])
    if roots != 1:
        return '%d root elements' % roots
    if defs_evs and defs_evs != frozen:
        return 'the defs subtree differs from svgbob\'s own'
    return None


PAY = ['<script>M()</script>', '</style><script>M()</script>', '<a href="M">x</a>', '" onload="M()', "' onclick='M()", ']]>M', '<!--M-->',
       '<?M x?>', '&M;', '&lt;M', '</text><M/>', '</svg><M>', '<![CDATA[M]]>', '<M', 'M>', '&#60;M&#62;', '\x01M', '￾M', '<svg onload=M>',
       '</defs><M>', '"/><M x="', '--><M><!--', '<!DOCTYPE M>', '%M;', '&#x3c;M', 'M]]><M>', "M' x='", '<M:x xmlns:M="u">', '\x00<M>', '\r<M>']
FRAG = ['<', '>', '&', '"', "'", '/', '=', ']]>', '<!--', '-->', '<?', '?>', '&#', ';', 'script', 'style', ' ', 'on', 'x', '\x0b', '\x1b', '</', 'xmlns', ':']
HOSTS = [
    ['+------------------------------------------+', '|                                          |', '+------------------------------------------+'],
    ['.--.', "'--'"], ['   ___', " ,'   `.", '/       \\', '\\       /', " `.___.'"], ['-->*', ' |'], [],
]


def build_doc(rng, ch, pay):
    host = list(rng.choice(HOSTS))
    q = pay.replace('"', '')
    nb = pay.replace('{', '').replace('}', '')
    # multi-byte characters glued in front of the payload, in the same text run (byte offsets != char indices)
    pre = ''.join(rng.choice('éЖü日本語の✓Ω') for _ in range(rng.choice([0, 0, 1, 2, 5, 13, 25]))) if rng.random() < 0.6 else ''
    if ch == 'plain':
        rows = host + [pre + pay, ' ' + pay + ' -+- ' + pre + pay]
        return gen.text_of(rows)
    if ch == 'quoted':
        rows = host + ['"' + pre + q + '" "' + q, '-- "' + q + pre + q + '" |']
        return gen.text_of(rows)
    if ch == 'tag':
        # a valid tag next to payload text inside a box, and tag names carrying the marker
        m = re.search(r'MK\d+', pay)[0]
        inner = ' {' + m + ',a' + m + '} ' + pre + pay.replace('\n', ' ')
        w = len(inner) + 2
        return gen.text_of(['+' + '-' * w + '+', '|' + inner + '  |', '+' + '-' * w + '+'])
    if ch == 'tag_invalid':
        if rng.random() < 0.4:
            # a quoted tag inside the shape, every punctuation character of the payload backslash-escaped
            esc = ''.join(('\\' + c) if not c.isalnum() and c not in ' \n\r' else c for c in pay.replace('\n', ' '))
            inner = ' "{a' + esc + '}" "{' + esc + '}"'
            w = len(inner) + 2
            return gen.text_of(['.' + '-' * w + '.', '|' + inner + '  |', "'" + '-' * w + "'"])
        inner = ' {' + pay + '} {a' + pay + '} {' + pay + ',b}'
        w = len(inner) + 2
        return gen.text_of(['+' + '-' * w + '+', '|' + inner + '  |', '+' + '-' * w + '+'])
    if ch == 'legname':
        if rng.random() < 0.4:
            # the payload inside what could pass for a css selector: pseudo classes, attribute and class selectors, combinators
            np = ''.join(c for c in pay if c not in '(){}\r\n')
            tpl = rng.choice(['a:not(%s)', 'a:nth-child(%s)', 'a:hover(%s)', 'a.%s', 'a[x=%s]', 'a[%s]', 'a>%s', 'a %s', 'a-%s', 'a\\%s', 'a:%s', 'a::%s', 'a,%s', '%s:hover', '*%s'])
            return gen.text_of(host) + '# Legend:\nb = {fill:red}\n' + (tpl % np) + ' = {stroke:red;}\nc = {fill:blue}\n'
        return gen.text_of(host) + '# Legend:\n' + pay + ' = {fill:red}\na' + pay + ' = {fill:blue}\n'
    if ch == 'legdecl':
        if rng.random() < 0.4:
            # the same class declared several times: every declaration goes through the same escaping
            return gen.text_of(host) + '# Legend:\na = {fill:red}\nb = {' + nb + '}\na = {' + nb + '}\na = {x:' + nb + '}\n'
        return gen.text_of(host) + '# Legend:\na = {' + nb + '}\nb = {x:' + nb + ';' + nb + '}\n'
    return gen.text_of(host) + '# Legend:\na = {fill:red}\n' + pay + '\n' + pay + ' = {' + nb + '}\n'


def check_case(ctx, case):
    r = ctx.conv(case['doc'], **case['kw'])
    ctx.note(key_of(case['doc'], sorted(case['kw'].items())), True, 'channel_' + case['channel'])
    if not r.ok:
        return 'conversion failed: ' + r.fail_text()
    src = _UNREP.sub('', case['doc']).replace('\r', '\n')
    msg = audit(r.out, case['marker'], ctx.extra['own'], src)
    if msg:
        return 'channel %s: %s' % (case['channel'], msg)
    return None


def run_shard(ctx, shard):
    rng = rng_for(ctx.seed, ID, shard['name'])
    for i in range(shard['n']):
        M = 'MK%d' % rng.randint(100, 10 ** 6)
        if rng.random() < 0.6:
            pay = rng.choice(PAY).replace('M', M)
        else:
            pay = ''.join(rng.choice(FRAG + [M]) for _ in range(rng.randint(2, 12))) + M
        ch = CHANNELS[(shard['idx'] + i) % len(CHANNELS)]
        doc = build_doc(rng, ch, pay)
        e = rng.choice([0, 1, 2, 3, 3, 4])
        kw = {'entry': e}
        if e >= 3:
            kw['flags'] = rng.choice([7, 7, 2, 0, 5, 3])
        if e == 4:
            kw['ow'], kw['oh'] = 100.0, 50.5
        case = {'doc': doc, 'kw': kw, 'channel': ch, 'marker': M}
        ctx.run_case(case)
        if i == 0:
            ctx.sample(case)


def freeze(binary):
    """(re)create data/vocabulary.json (documentation of the static list and of the defs of the unchanged tree)"""
    own = own_vocabulary(binary)
    json.dump({'defs': own['defs'], 'elements': {k: sorted(v) for k, v in VOC.items()}}, open(os.path.join(VERIF, 'data', 'vocabulary.json'), 'w'), indent=1)


def execute(run):
    binary = build_driver()
    if os.environ.get('VERIF_FREEZE_VOCABULARY'):
        freeze(binary)
    own = own_vocabulary(binary)
    if not own['voc'].get('svg'):
        run.inconclusive['the payload-free reference corpus produced no document'] += 1
        return
    run.extra_cov['reference_vocabulary'] = {k: v for k, v in own['voc'].items()}
    n, k = (3000, 16) if run.tier == 'quick' else (9000, 32)
    run.run_shards(binary, [{'name': 'pay-%d' % i, 'idx': i, 'n': n} for i in range(k)], extra={'own': own})


if __name__ == '__main__':
    sys.exit(main(sys.modules[__name__]))
