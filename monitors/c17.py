"""C17 - line endings and invisible trailing whitespace do not change the output.

Metamorphic oracle: the parsed documents of a text and of its variants (LF/CRLF, trailing blanks or tabs at
line ends, trailing blank lines) are equal: root attributes, canonical scene, style text modulo css white space.
"""
import sys

import gen
from vlib import F, Malformed, Scene, build_driver, driver_info, key_of, main, multiset_match, rng_for, show_el

ID = 'C17'
LEVEL = 'exploration'
RULE = ('documents of the mixed corpus with and without legend (0..4 entries, multi-line declarations), quoted text and wide '
        'characters x {LF, CRLF} x random trailing blanks/tabs per line (legend lines included) x 0..5 trailing blank lines; '
        'non-trivial = distinct (document, variant) where the variant differs from the base text')
ASSUMPTIONS = ['the css of the style element is compared modulo white space (a declaration spanning lines contains its line ends)',
               'the last line keeps its terminator: `# Legend:` without a line end is not a legend header']
FLOORS = {'quick': {'distinct_nontrivial': 3000, 'with_legend': 1000, 'crlf': 1000, 'legend_crlf': 300},
          'thorough': {'distinct_nontrivial': 60000, 'with_legend': 20000, 'crlf': 20000, 'legend_crlf': 6000}}
NAMES = ['a', 'b1', 'big_c', 'red', 'k9']
DECLS = ['fill:red;', 'stroke: blue; fill: none', 'x:y;\n z:w', 'a:b', '', 'fill:#abc;stroke-width:3']


def full(doc):
    sc = Scene(doc)
    css = [' '.join(k.text.split()) for k in sc.style]
    return sc, css


def check_case(ctx, case):
    base, var = case['base'], case['variant']
    ra = ctx.conv(base, flags=2)
    rb = ctx.conv(var, flags=2)
    if not (ra.ok and rb.ok):
        return 'conversion failed: ' + (ra.fail_text() if not ra.ok else rb.fail_text())
    try:
        a, cssa = full(ra.out)
        b, cssb = full(rb.out)
    except Malformed as e:
        return 'output not parseable: %s' % e
    tags = []
    if '# Legend:' in base:
        tags.append('with_legend')
    if '\r\n' in var:
        tags.append('crlf')
        if '# Legend:' in base:
            tags.append('legend_crlf')
    if '# Legend:' in base and '\n\n' in base[base.index('# Legend:'):].rstrip('\n'):
        tags.append('legend_with_inner_blank_line')
    ctx.note(key_of(base, var), base != var, *tags)
    if a.root.attrs != b.root.attrs:
        return 'root attributes differ: %r vs %r' % (a.root.attrs, b.root.attrs)
    if cssa != cssb:
        return 'style sheet differs: ...%r vs ...%r' % (cssa[0][-90:] if cssa else None, cssb[0][-90:] if cssb else None)
    ua, ub = multiset_match(a.els, b.els, F(0))
    if ua or ub:
        return 'drawing differs: only in base %s; only in variant %s' % ([show_el(e) for e in ua[:3]], [show_el(e) for e in ub[:3]])
    return None


def make_variant(rng, base):
    lines = base.split('\n')[:-1]
    out = []
    for l in lines:
        out.append(l + ''.join(rng.choice(' \t') for _ in range(rng.choice([0, 0, 1, 3]))))
    nl = rng.choice(['\n', '\r\n'])
    return nl.join(out) + nl + nl * rng.randint(0, 5)


def run_shard(ctx, shard):
    rng = rng_for(ctx.seed, ID, shard['name'])
    circles = ctx.extra['circles']
    if shard['name'] == 'v-0':
        for name, rows in gen.bundled_whole(with_legend=True):
            base = '\n'.join(rows) + '\n'
            for rep in range(3):
                ctx.run_case({'base': base, 'variant': make_variant(rng, base)})
            ctx.tag('bundled_documents')
    for i in range(shard['n']):
        kind, rows = gen.diagram(rng, circles, allow_quotes=True, allow_braces=True)
        rows = list(rows)
        if rng.random() < 0.5:
            rows.append('# Legend:')
            if rng.random() < 0.15:
                rows.append('')   # an empty line right after the header
            for k in range(rng.randint(0, 4)):
                if rng.random() < 0.12:
                    # an entry laid out over several lines (name, `=` and the opening brace not all on one line): whatever
                    # the grammar makes of it, it must make the same of it under either line-ending convention
                    n_, d_ = rng.choice(NAMES), rng.choice(DECLS)
                    rows += rng.choice([[n_ + ' =', '{' + d_ + '}'], [n_ + ' =', '{', '  ' + d_, '}'], [n_, '= {' + d_ + '}'], [n_ + ' = {', d_, '}'],
                                        [n_ + ' =  ', '  {' + d_ + '}']])
                    continue
                rows.append(rng.choice(NAMES) + rng.choice([' = ', '=', ' =  ']) + '{' + rng.choice(DECLS) + '}')
                if rng.random() < 0.2:
                    rows.append('')   # an empty line between entries: blanks on it must not matter either
        base = '\n'.join(rows) + '\n'
        case = {'base': base, 'variant': make_variant(rng, base)}
        ctx.run_case(case)
        if i == 0:
            ctx.sample(case)


def execute(run):
    binary = build_driver()
    info = driver_info(binary)
    extra = {'circles': info['circles']}
    n = 2000 if run.tier == 'quick' else 8000
    k = 16 if run.tier == 'quick' else 32
    run.run_shards(binary, [{'name': 'v-%d' % i, 'n': n} for i in range(k)], extra=extra)


if __name__ == '__main__':
    sys.exit(main(sys.modules[__name__]))
