"""C15 - quoted text is shown verbatim, draws nothing, and displaces nothing.

Metamorphic oracle: scene(x) == scene(blank(x)) + {text(q_i) at the cell of its opening quote}, where
blank() replaces each quoted region (quotes included) by as many spaces as it has display columns.
"""
import sys

import gen
from vlib import F, Malformed, Scene, build_driver, driver_info, cw, key_of, main, multiset_match, rng_for, show_el

ID = 'C15'
LEVEL = 'exploration'
RULE = ('1..4 rows of drawing content with 0..3 quoted segments at arbitrary columns; segment content over drawing, markup, '
        'multi-byte and double-width characters (no quote, backslash or brace); also inside boxes and circles; non-trivial = '
        'distinct document with at least one quoted segment next to drawing content')
ASSUMPTIONS = ['braces are kept out of quoted content: a quoted {tag} inside a shape is consumed as a class tag (C16)',
               'an empty quoted string may or may not yield an empty text element']
FLOORS = {'quick': {'distinct_nontrivial': 3000, 'wide_in_quotes': 300, 'drawing_in_quotes': 300, 'inside_shape': 200},
          'thorough': {'distinct_nontrivial': 60000, 'wide_in_quotes': 6000, 'drawing_in_quotes': 6000, 'inside_shape': 4000}}
DRAW = " -|+/\\.,'`()_*oO#<>^vV=~:!ab\u201c\u201d"
QC = "-|+/.<>&ab é日Ж*'_=:()─│┌╭▲字ｗ#" + "\u0301\u200b\u0306\ufe0f" + "\u1100\u26a1"
TOL = F(0)


def build(parts_rows, anchor=(2, 12)):
    """rows and blanked rows from [(plain, quoted or None), ...] per row; also the expected texts"""
    rows, blank, exp = [], [], []
    for y, parts in enumerate(parts_rows):
        row = ''
        brow = ''
        col = 0
        for plain, q in parts:
            row += plain
            brow += plain
            col += sum(cw(c) for c in plain)
            if q is not None:
                wq = sum(cw(c) for c in q)
                row += '"' + q + '"'
                brow += ' ' * (wq + 2)
                exp.append(('text', (), F(col * 8) + anchor[0], F(y * 16) + anchor[1], q))
                col += wq + 2
        rows.append(row)
        blank.append(brow)
    return rows, blank, exp


def check_case(ctx, case):
    rows, blank, exp = build(case['rows'], ctx.anchor())
    r = ctx.conv(gen.text_of(rows))
    rb = ctx.conv(gen.text_of(blank))
    if not (r.ok and rb.ok):
        return 'conversion failed: ' + (r.fail_text() if not r.ok else rb.fail_text())
    try:
        a = Scene(r.out)
        b = Scene(rb.out)
    except Malformed as e:
        return 'output not parseable: %s' % e
    qs = [q for parts in case['rows'] for _, q in parts if q is not None]
    tags = []
    if any(cw(c) == 2 for q in qs for c in q):
        tags.append('wide_in_quotes')
    if any(c in '\u0301\u200b\u0306\ufe0f' for q in qs for c in q):
        tags.append('zero_width_in_quotes')
    if any(c in "-|+/\\.'_=:()" for q in qs for c in q):
        tags.append('drawing_in_quotes')
    if case.get('inside'):
        tags.append('inside_shape')
    ctx.note(key_of(case['rows']), bool(qs) and bool(b.els), *tags)
    # (compared element by element; a quoted text inside a shape may change how the output is grouped, not what is drawn)
    want = b.leaves() + exp
    ua, ub = multiset_match(want, a.leaves(), TOL)
    if ua or ub:
        # an empty quoted string may yield no element
        want2 = b.leaves() + [e for e in exp if e[4] != '']
        ua2, ub2 = multiset_match(want2, a.leaves(), TOL)
        if ua2 or ub2:
            return 'quoted text is not verbatim / displaces or draws something: missing %s; extra %s' % (
                [show_el(e) for e in ua[:3]], [show_el(e) for e in ub[:3]])
    if (a.W, a.H) != (b.W, b.H):
        return 'canvas %sx%s differs from the canvas of the blanked document %sx%s' % (a.W, a.H, b.W, b.H)
    return None


def qtext(rng):
    if rng.random() < 0.15:
        # markup characters arranged as character / entity references: still literal text
        return ''.join(rng.choice(['&lt;', '&gt;', '&amp;', '&quot;', '&apos;', '&#124;', '&#x2d;', '&#60;', 'a', ' ', '&', ';', '&amp;&amp;']) for _ in range(rng.randint(1, 4)))
    return ''.join(rng.choice(QC) for _ in range(rng.randint(0, 6)))


def run_shard(ctx, shard):
    rng = rng_for(ctx.seed, ID, shard['name'])
    circles = ctx.extra['circles']
    for i in range(shard['n']):
        mode = rng.random()
        inside = False
        if mode < 0.7:
            h = rng.randint(1, 4)
            prs = []
            for y in range(h):
                parts = []
                nseg = rng.choice([0, 1, 1, 2, 3])
                for sgi in range(nseg + 1):
                    plain = ''.join(rng.choice(DRAW) for _ in range(rng.randint(0, 6)))
                    parts.append((plain, qtext(rng) if sgi < nseg else None))
                prs.append(parts)
        elif mode < 0.85:
            # inside a box
            inside = True
            q = qtext(rng)
            w = sum(cw(c) for c in q) + 2 + rng.randint(2, 6)
            pad = rng.randint(1, w - sum(cw(c) for c in q) - 3)
            st = gen.BOX_STYLES[rng.choice(['sharp', 'round1', 'uni'])]
            top = st['tl'] + st['hz'] * w + st['tr']
            bot = st['bl'] + st['hz'] * w + st['br']
            rest = w - pad - sum(cw(c) for c in q) - 2
            prs = [[(top, None)], [(st['vt'] + ' ' * pad, q), (' ' * rest + st['vt'], None)], [(bot, None)]]
        else:
            # inside a circle of the catalogue (a big one), on its middle row
            inside = True
            art = [c for c in circles if len(c) >= 5]
            c = list(rng.choice(art))
            mid = len(c) // 2
            row = c[mid]
            lead = len(row) - len(row.lstrip())
            inner = row.strip()
            q = ''.join(rng.choice("ab-|é") for _ in range(rng.randint(0, 2)))
            gap = len(inner) - 2
            if gap >= len(q) + 4 and inner[1:-1].strip() == '':
                pad = 1
                rest = gap - pad - len(q) - 2
                prs = [[(r, None)] for r in c]
                prs[mid] = [(' ' * lead + inner[0] + ' ' * pad, q), (' ' * rest + inner[-1], None)]
            else:
                prs = [[('(', 'x'), (')', None)]]
        case = {'rows': prs, 'inside': inside}
        ctx.run_case(case)
        if i == 0:
            ctx.sample({'document': build(prs)[0]})


def execute(run):
    binary = build_driver()
    info = driver_info(binary)
    extra = {'circles': info['circles']}
    n = 2500 if run.tier == 'quick' else 8000
    k = 16 if run.tier == 'quick' else 32
    run.run_shards(binary, [{'name': 'q-%d' % i, 'n': n} for i in range(k)], extra=extra)


if __name__ == '__main__':
    sys.exit(main(sys.modules[__name__]))
