"""C03 - diagrams of - | + and labels render exactly the strokes the characters denote.

Oracle: an independent reference renderer written from spec.md and the property statement.
Both the reference and the output of the real code are reduced to, per axis-parallel carrier
line, the union of closed intervals (exact rationals) and compared for equality; texts are
compared as cell -> character maps.
"""
import itertools
import sys

from vlib import F, Malformed, Scene, build_driver, key_of, main, rng_for
import gen

ID = 'C03'
LEVEL = 'exploration'
RULE = ('grids over {space,-,|,+} enumerated exhaustively per size (index ranges) and random grids up to 14x8 at 4 '
        'densities, with and without plain label characters; non-trivial = distinct grid whose reference rendering '
        'has at least 2 strokes')
ASSUMPTIONS = ['the reference renderer (c03.ref) states what spec.md and the property say the characters denote',
               'expat is a conforming XML parser']
FLOORS = {'quick': {'distinct_nontrivial': 5000, 'outputs_with_rect': 1000},
          'thorough': {'distinct_nontrivial': 100000, 'outputs_with_rect': 20000}}
ALPHA = " -|+"
H2 = F(1, 2)


def ref(grid):
    """the strokes and texts the characters denote"""
    Hn = len(grid)

    def at(x, y):
        if 0 <= y < Hn and 0 <= x < len(grid[y]):
            return grid[y][x]
        return ' '
    segs = []
    texts = {}
    for y, row in enumerate(grid):
        for x, ch in enumerate(row):
            X, Y = F(x), F(y)
            if ch == '-':
                segs.append(((X, Y + H2), (X + 1, Y + H2)))
            elif ch == '|':
                segs.append(((X + H2, Y), (X + H2, Y + 1)))
                if at(x + 1, y) == '-':
                    segs.append(((X + H2, Y + H2), (X + 1, Y + H2)))
                if at(x - 1, y) == '-':
                    segs.append(((X, Y + H2), (X + H2, Y + H2)))
            elif ch == '+':
                n = 0
                if at(x, y - 1) in '|+':
                    segs.append(((X + H2, Y), (X + H2, Y + H2)))
                    n += 1
                if at(x, y + 1) in '|+':
                    segs.append(((X + H2, Y + H2), (X + H2, Y + 1)))
                    n += 1
                if at(x - 1, y) in '-+':
                    segs.append(((X, Y + H2), (X + H2, Y + H2)))
                    n += 1
                if at(x + 1, y) in '-+':
                    segs.append(((X + H2, Y + H2), (X + 1, Y + H2)))
                    n += 1
                if n == 0:
                    texts[(x, y)] = '+'
            elif ch != ' ':
                texts[(x, y)] = ch
    return norm(segs), texts, len(segs)


def norm(segs):
    d = {}
    for (a, b) in segs:
        if a[1] == b[1]:
            k = ('h', a[1])
            iv = tuple(sorted((a[0], b[0])))
        elif a[0] == b[0]:
            k = ('v', a[0])
            iv = tuple(sorted((a[1], b[1])))
        else:
            return ('DIAGONAL', a, b)
        if iv[0] == iv[1]:
            continue
        d.setdefault(k, []).append(iv)
    out = {}
    for k, ivs in d.items():
        ivs.sort()
        m = [list(ivs[0])]
        for s, e in ivs[1:]:
            if s <= m[-1][1]:
                m[-1][1] = max(m[-1][1], e)
            else:
                m.append([s, e])
        out[k] = tuple(tuple(i) for i in m)
    return out


def actual(doc, anchor=(2, 12)):
    sc = Scene(doc)
    segs = []
    texts = {}
    other = []
    nrect = 0
    for e, ing in sc.flat():
        t = e[0]
        if t == 'line':
            if e[1] != ('solid',):
                other.append('line class %r' % (e[1],))
            segs.append(((e[2] / 8, e[3] / 16), (e[4] / 8, e[5] / 16)))
        elif t == 'rect':
            nrect += 1
            x, y, w, h = e[2] / 8, e[3] / 16, e[4] / 8, e[5] / 16
            if e[1] != ('nofill', 'solid') or e[6] != 0:
                other.append('rect class %r rx %s' % (e[1], e[6]))
            segs += [((x, y), (x + w, y)), ((x, y + h), (x + w, y + h)), ((x, y), (x, y + h)), ((x + w, y), (x + w, y + h))]
        elif t == 'text':
            cx = (e[2] - anchor[0]) / 8
            cy = (e[3] - anchor[1]) / 16
            if cx.denominator != 1 or cy.denominator != 1:
                other.append('text anchor %s,%s' % (e[2], e[3]))
                continue
            for i, ch in enumerate(e[4]):
                k = (int(cx) + i, int(cy))
                if k in texts:
                    other.append('cell %r shown twice' % (k,))
                texts[k] = ch
        else:
            other.append('element %s' % t)
    return norm(segs), texts, other, nrect


def check_case(ctx, case):
    grid = case['grid']
    if key_of(grid)[0] % 8 == 0:
        # the same grid put together character by character through the public StringBuffer API, in a shuffled order
        r = ctx.conv(gen.text_of(grid), entry=8, ow=float(key_of(grid)[1] * 256 + key_of(grid)[2] + 1))
        ctx.tag('assembled_through_string_buffer')
    else:
        r = ctx.conv(gen.text_of(grid))
    if not r.ok:
        return 'conversion failed: ' + r.fail_text()
    rs, rt, nstroke = ref(grid)
    try:
        as_, at, oth, nrect = actual(r.out, ctx.anchor())
    except Malformed as e:
        return 'output not parseable: %s' % e
    tags = []
    if nrect:
        tags.append('outputs_with_rect')
    if rt:
        tags.append('grids_with_text')
    ctx.note(key_of(grid), nstroke >= 2, *tags)
    if oth:
        return 'unexpected output: %s' % '; '.join(oth[:4])
    if rs != as_:
        missing = {k: v for k, v in rs.items() if as_.get(k) != v} if isinstance(rs, dict) and isinstance(as_, dict) else rs
        extra = {k: v for k, v in as_.items() if rs.get(k) != v} if isinstance(rs, dict) and isinstance(as_, dict) else as_
        return 'stroked point set differs from the specification: expected %s, got %s' % (show(missing), show(extra))
    if rt != at:
        return 'texts differ: expected %r, got %r' % (sorted(rt.items()), sorted(at.items()))
    return None


def show(d):
    if not isinstance(d, dict):
        return repr(d)
    return '{' + ', '.join('%s@%s: %s' % (k[0], float(k[1]), [(float(a), float(b)) for a, b in v]) for k, v in sorted(d.items())) + '}'


def grid_of_index(i, w, h):
    cells = []
    for _ in range(w * h):
        cells.append(ALPHA[i % 4])
        i //= 4
    return [''.join(cells[r * w:(r + 1) * w]) for r in range(h)]


def run_shard(ctx, shard):
    if shard['kind'] == 'exh':
        w, h = shard['w'], shard['h']
        step = shard.get('step', 1)
        for i in range(shard['lo'], shard['hi'], step):
            g = grid_of_index(i, w, h)
            ctx.run_case({'grid': g})
            if i == shard['lo']:
                ctx.sample({'grid': g})
    elif shard['kind'] == 'sparse':
        # big pages with many separate groups (words, dashes, small boxes that do not touch each other)
        rng = rng_for(ctx.seed, ID, shard['name'])
        toks = ['-', '--', '|', '+', 'ab', 'k', '+-+', '-+-', '|-', 'a-b', 'q7']
        for i in range(shard['n']):
            cols = rng.randint(3, 14)
            nrows = rng.randint(3, 14)
            grid = []
            for y in range(nrows):
                row = ''
                for x in range(cols):
                    t = rng.choice(toks) if rng.random() < 0.8 else ''
                    row += t.ljust(5)
                grid.append(row.rstrip())
                grid.append('')
            ctx.run_case({'grid': grid})
            ctx.tag('sparse_pages')
            if i == 0:
                ctx.sample({'grid': grid[:6]})
    elif shard['kind'] == 'long':
        # tall and wide grids: runs of dozens of rows / more than a hundred columns with stubs and corners on them
        # (float tolerances in the merging code scale with the length of a run)
        rng = rng_for(ctx.seed, ID, shard['name'])
        for i in range(shard['n']):
            if rng.random() < 0.5:
                w, h = rng.randint(1, 4), rng.randint(20, 70)
            else:
                w, h = rng.randint(90, 180), rng.randint(1, 3)
            main = rng.choice('-|+')
            grid = []
            for y in range(h):
                row = ''
                for x in range(w):
                    q = rng.random()
                    row += main if q < 0.85 else rng.choice('-|+ ')
                grid.append(row)
            ctx.run_case({'grid': grid})
            ctx.tag('long_grids')
    elif shard['kind'] == 'boxes':
        # 1..3 boxes of + - | planted on a canvas, then a few random overwrites (ladders, gaps, overhangs, labels)
        rng = rng_for(ctx.seed, ID, shard['name'])
        for i in range(shard['n']):
            W = rng.randint(6, 14)
            H = rng.randint(4, 8)
            g = [[' '] * W for _ in range(H)]
            for b in range(rng.randint(1, 3)):
                w = rng.randint(0, 5)
                h = rng.randint(0, 3)
                if w + 2 > W or h + 2 > H:
                    continue
                ox = rng.randint(0, W - w - 2)
                oy = rng.randint(0, H - h - 2)
                for y, r in enumerate(gen.box(w, h)):
                    for x, ch in enumerate(r):
                        if ch != ' ':
                            g[oy + y][ox + x] = ch
            for m in range(rng.randint(0, 4)):
                g[rng.randrange(H)][rng.randrange(W)] = rng.choice("-|+ -|+" + gen.PLAIN[:6])
            grid = [''.join(r) for r in g]
            ctx.run_case({'grid': grid})
            if i == 0:
                ctx.sample({'grid': grid})
    else:
        rng = rng_for(ctx.seed, ID, shard['name'])
        for i in range(shard['n']):
            w = rng.randint(1, 14)
            h = rng.randint(1, 8)
            dens = rng.choice([0.2, 0.5, 0.8, 1.0])
            lab = rng.choice([0, 0, 0.1, 0.3])
            grid = []
            for y in range(h):
                row = ''
                for x in range(w):
                    q = rng.random()
                    if q < lab:
                        row += rng.choice(gen.PLAIN)
                    elif q < lab + dens * (1 - lab):
                        row += rng.choice("-|+")
                    else:
                        row += ' '
                grid.append(row)
            ctx.run_case({'grid': grid})
            if i == 0:
                ctx.sample({'grid': grid})


def exh_shards(w, h, per=8192, step=1):
    total = 4 ** (w * h)
    out = []
    lo = 0
    while lo < total:
        hi = min(total, lo + per * step)
        out.append({'kind': 'exh', 'name': 'exh-%dx%d-%d' % (w, h, lo), 'w': w, 'h': h, 'lo': lo, 'hi': hi, 'step': step})
        lo = hi
    return out


def execute(run):
    binary = build_driver()
    shards = []
    if run.tier == 'quick':
        sizes = [(1, 1), (2, 1), (1, 2), (2, 2), (3, 2), (2, 3), (4, 1), (1, 4), (6, 1), (1, 6), (8, 1), (1, 8)]
        for w, h in sizes:
            shards += exh_shards(w, h)
        # a sample of the 3x3 space (every 7th grid: 7 is coprime to 4, all cell values in all positions)
        shards += exh_shards(3, 3, per=4096, step=7)
        shards += [{'kind': 'rand', 'name': 'rand-%d' % i, 'n': 1500} for i in range(16)]
        shards += [{'kind': 'boxes', 'name': 'boxes-%d' % i, 'n': 1500} for i in range(8)]
        shards += [{'kind': 'sparse', 'name': 'sparse-%d' % i, 'n': 150} for i in range(8)]
        shards += [{'kind': 'long', 'name': 'long-%d' % i, 'n': 150} for i in range(8)]
        exhaustive_sizes = sizes
    else:
        sizes = [(1, 1), (2, 1), (1, 2), (2, 2), (3, 2), (2, 3), (3, 3), (4, 2), (2, 4), (8, 1), (1, 8), (5, 2), (2, 5), (4, 3), (3, 4)]
        for w, h in sizes:
            shards += exh_shards(w, h, per=65536 if w * h >= 12 else 16384)
        shards += exh_shards(4, 4, per=8192, step=65537)
        shards += exh_shards(6, 2, per=65536, step=5)
        shards += exh_shards(2, 6, per=65536, step=5)
        shards += exh_shards(5, 3, per=8192, step=16411)
        shards += [{'kind': 'rand', 'name': 'rand-%d' % i, 'n': 12000} for i in range(32)]
        shards += [{'kind': 'boxes', 'name': 'boxes-%d' % i, 'n': 12000} for i in range(16)]
        shards += [{'kind': 'sparse', 'name': 'sparse-%d' % i, 'n': 1500} for i in range(16)]
        shards += [{'kind': 'long', 'name': 'long-%d' % i, 'n': 400} for i in range(16)]
        exhaustive_sizes = sizes
    run.extra_cov['exhaustive_scopes'] = ['all grids over {space,-,|,+} of size %dx%d' % s for s in exhaustive_sizes]
    run.extra_cov['exhaustive'] = False
    run.run_shards(binary, shards)


if __name__ == '__main__':
    sys.exit(main(sys.modules[__name__]))
