"""C06 - moving a drawing on the page only translates its rendering.

Metamorphic oracle: scene(shift(x,k,n)) - (k*s, n*2s) == scene(x) as multisets (kinds, classes, flags and
text exact, numbers within 1e-3 cell), and the canvas grows by exactly (k*s, n*2s).
"""
import sys

import gen
from vlib import F, Malformed, Scene, build_driver, driver_info, key_of, main, multiset_match, rng_for, show_el

ID = 'C06'
LEVEL = 'exploration'
RULE = ('legend-free diagrams (random grids over the full alphabet incl. unicode glyphs, windows of the bundled diagrams, '
        'boxes, catalogue circles, long diagonals, arrows, optional quoted text) x offsets k in {0,1,2,3,7,8,50,399,400}+random, '
        'n in {0,1,3,40,199,200}+random; non-trivial = distinct (diagram, offset) with at least one ordinary cell and k+n>0')
ASSUMPTIONS = ['numbers may differ by 1e-3 cell (f32 arithmetic at large offsets); kinds, classes, flags, text must be equal',
               'documents without any ordinary (non-quoted) cell are excluded: an empty drawing has no position, the canvas of '
               'quoted-only documents is known finding C12/quoted-text-outside-canvas']
FLOORS = {'quick': {'distinct_nontrivial': 3000, 'with_arc_or_circle': 300, 'with_long_diagonal': 300},
          'thorough': {'distinct_nontrivial': 60000, 'with_arc_or_circle': 6000, 'with_long_diagonal': 3000}}
TOL = F(8, 1000)
KS = [0, 1, 2, 3, 7, 8, 50, 399, 400]
NS = [0, 1, 3, 40, 199, 200]


def check_case(ctx, case):
    rows, k, n = case['rows'], case['k'], case['n']
    s0 = gen.text_of(rows)
    s1 = '\n' * n + ''.join(' ' * k + r + '\n' for r in rows)
    sc = case.get('scale')
    if sc:
        # a scale setting that is not a multiple of 1/4 (`--scale 1.2`): cell boundaries are no longer exact in f32;
        # judged in units of the default scale (coordinates divided by scale/8), within the tolerance the property grants
        u = F(f32(sc)) / 8
        r0 = ctx.conv(s0, entry=3, scale=sc)
        r1 = ctx.conv(s1, entry=3, scale=sc)
    else:
        u = F(1)
        r0 = ctx.conv(s0)
        r1 = ctx.conv(s1)
    if not (r0.ok and r1.ok):
        return 'conversion failed: ' + (r0.fail_text() if not r0.ok else r1.fail_text())
    try:
        a = Scene(r0.out, sc=u)
        b = Scene(r1.out, dx=8 * k * u, dy=16 * n * u, sc=u)
        a.W, a.H, b.W, b.H = a.W / u, a.H / u, b.W / u, b.H / u
    except Malformed as e:
        return 'output not parseable: %s' % e
    if sc:
        ctx.tag('odd_scale')
    kinds = gen.kinds_in(a)
    tags = ['kind_' + case.get('kind', '?')]
    if kinds & {'circle', 'path', 'g_path', 'g_circle'}:
        tags.append('with_arc_or_circle')
    if case.get('kind') == 'diagonal' and len(rows) >= 9:
        tags.append('with_long_diagonal')
    ctx.note(key_of(rows, k, n), k + n > 0, *tags)
    if (abs(b.W - a.W - 8 * k) > TOL or abs(b.H - a.H - 16 * n) > TOL) if sc else (b.W - a.W, b.H - a.H) != (8 * k, 16 * n):
        return 'canvas grew by (%s,%s), the drawing moved by (%s,%s)' % (b.W - a.W, b.H - a.H, 8 * k, 16 * n)
    ua, ub = multiset_match(a.els, b.els, TOL)
    if ua or ub:
        return 'rendering changes when moved by %d columns, %d rows: only at origin: %s; only when moved (shifted back): %s' % (
            k, n, [show_el(e) for e in ua[:3]], [show_el(e) for e in ub[:3]])
    return None


def f32(x):
    import struct
    return struct.unpack('<f', struct.pack('<f', x))[0]


ODD_SCALES = [9.6, 5.6, 8.8, 10.4, 2.4, 12.8, 7.2, 33.6]


def annotated_shape(rng, circles):
    """a closed shape with a {tag} or a label on its first interior row: which shape encloses which text is decided by
    comparing bounds, wherever the drawing sits"""
    inner = rng.choice(['{a}', '{a,b}', 'hi', '{k9} x', 'p {w}', '{filled}'])
    inner = ' ' * rng.randint(0, 2) + inner
    w = len(inner) + rng.randint(0, 3)
    h = rng.randint(1, 3)
    q = rng.random()
    if q < 0.4:
        rows = [' ' + '_' * w] + ['|' + (inner + ' ' * (w - len(inner)) if y == 0 else ' ' * w) + '|' for y in range(h)] + ['|' + '_' * w + '|']
    elif q < 0.8:
        st = gen.BOX_STYLES[rng.choice(list(gen.BOX_STYLES))]
        rows = gen.box(w, h, inner={0: inner}, **st)
    else:
        big = [c for c in circles if len(c) >= 5] or circles
        c = list(rng.choice(big))
        m = len(c) // 2
        row = c[m]
        body = row.strip()
        lead = len(row) - len(row.lstrip())
        tag = '{a}'
        if len(body) - 2 >= len(tag) + 2 and body[1:-1].strip() == '':
            gap = len(body) - 2
            c[m] = ' ' * lead + body[0] + ' ' + tag + ' ' * (gap - 1 - len(tag)) + body[-1]
        rows = c
    return rows


def run_shard(ctx, shard):
    rng = rng_for(ctx.seed, ID, shard['name'])
    circles = ctx.extra['circles']
    if shard.get('force') == 'bundled':
        for name, rows in gen.bundled_whole():
            for (k, n) in [(1, 1), (7, 3), (399, 0), (0, 199), (400, 200), (rng.randint(0, 400), rng.randint(0, 200))]:
                ctx.run_case({'rows': rows, 'k': k, 'n': n, 'kind': 'bundled_whole'})
        ctx.sample({'bundled_whole': [n for n, _ in gen.bundled_whole()]})
        return
    for i in range(shard['n']):
        if shard.get('force') == 'diagonal':
            ln = rng.choice([9, 10, 12, 15, 17, 20, 24, 31, 33, 47, 60])
            ch = rng.choice('/\\╱╲')
            kind, rows = 'diagonal', gen.diag(ch, ln, '/' if ch in '/╱' else '\\')
        elif shard.get('force') == 'circle':
            kind, rows = 'circle', list(rng.choice(circles))
        else:
            kind, rows = gen.diagram(rng, circles, allow_quotes=True, allow_braces=True)
        if not shard.get('force') and rng.random() < 0.08 or shard.get('force') == 'annotated':
            kind, rows = 'annotated', annotated_shape(rng, circles)
        if rng.random() < 0.1 and rows:
            # a tab is a blank that occupies one column, wherever it stands
            y = rng.randrange(len(rows))
            x = rng.randint(0, len(rows[y]))
            rows = list(rows)
            rows[y] = rows[y][:x] + '\t' + rows[y][x:]
            kind = kind + '_tab'
        k = rng.choice(KS) if rng.random() < 0.7 else rng.randint(0, 400)
        n = rng.choice(NS) if rng.random() < 0.7 else rng.randint(0, 200)
        case = {'rows': rows, 'k': k, 'n': n, 'kind': kind}
        if rng.random() < (0.5 if kind.startswith('annotated') else 0.12):
            case['scale'] = rng.choice(ODD_SCALES)
            if kind.startswith('annotated'):
                case['n'] = n = rng.randint(0, 60)
        ctx.run_case(case)
        if i == 0:
            ctx.sample(case)


def execute(run):
    binary = build_driver()
    info = driver_info(binary)
    extra = {'circles': info['circles']}
    if run.tier == 'quick':
        shards = [{'name': 'mix-%d' % i, 'n': 2500} for i in range(16)]
        shards += [{'name': 'diag-%d' % i, 'n': 300, 'force': 'diagonal'} for i in range(4)]
        shards += [{'name': 'circ-%d' % i, 'n': 300, 'force': 'circle'} for i in range(4)]
        shards += [{'name': 'annot-%d' % i, 'n': 600, 'force': 'annotated'} for i in range(4)]
    else:
        shards = [{'name': 'mix-%d' % i, 'n': 6000} for i in range(32)]
        shards += [{'name': 'diag-%d' % i, 'n': 600, 'force': 'diagonal'} for i in range(8)]
        shards += [{'name': 'circ-%d' % i, 'n': 800, 'force': 'circle'} for i in range(8)]
        shards += [{'name': 'annot-%d' % i, 'n': 2500, 'force': 'annotated'} for i in range(8)]
    shards.insert(0, {'name': 'bundled', 'n': 0, 'force': 'bundled'})
    run.run_shards(binary, shards, extra=extra)


if __name__ == '__main__':
    sys.exit(main(sys.modules[__name__]))
