"""C14 - arrowheads, bullets and rounded corners sit and point where the text says.

Oracles (exact rational arithmetic on the output):
 arrowheads - one line + one filled 3-point polygon; exactly one vertex on the line's axis (the tip), strictly
   beyond the line's near end in the direction of travel; the other two vertices strictly on opposite sides of
   the axis and behind the tip; direction of travel parallel to the drawn direction;
 bullets - no text; a line carrying the marker class of the documented kind whose marked end is the centre of
   the bullet's cell;
 corners - every arc of a rounded outline joins the end of one horizontal and one vertical line and its centre
   (from radius, large-arc and sweep flags) is (x of the horizontal line's end, y of the vertical line's end).
"""
import sys

import gen
from vlib import F, Malformed, Scene, arc_center, build_driver, key_of, main, rng_for, show_el

ID = 'C14'
LEVEL = 'exploration'
RULE = ('arrowheads: lines of length 1..40 in 8 directions x glyphs > < ^ v V and triangle glyphs x 2 offsets; bullets * o O at an '
        'end (8 directions) or mid-line x lengths 1..24 x 2 offsets; a bullet and an arrowhead on one line (tail bullet or bullet next to the head, 8 directions); rounded outlines 1..30 x 1..15 in 3 corner styles, kept from '
        'being endorsed as a rect by an attached stub; non-trivial = every distinct case')
ASSUMPTIONS = ['diagonal arrowheads exist for v V ^ only (the triangle glyphs are axis-parallel)']
FLOORS = {'quick': {'arrowheads': 500, 'bullets': 500, 'combos': 300, 'outlines': 200}, 'thorough': {'arrowheads': 1600, 'bullets': 1400, 'combos': 2000, 'outlines': 1300}}
MK = {'*': 'circle', 'o': 'open_circle', 'O': 'big_open_circle'}
DIRS = {'right': (1, 0), 'left': (-1, 0), 'down': (0, 1), 'up': (0, -1), 'downright': (1, 2), 'downleft': (-1, 2), 'upleft': (-1, -2), 'upright': (1, -2)}


def cross(p, q, r):
    return (q[0] - p[0]) * (r[1] - p[1]) - (q[1] - p[1]) * (r[0] - p[0])


def dot(a, b):
    return a[0] * b[0] + a[1] * b[1]


def arrow_cases(lengths):
    for n in lengths:
        for g in '>▶▸►':
            yield ('right', g, n, ['-' * n + g])
        for g in '<◀◂◄':
            yield ('left', g, n, [g + '-' * n])
        for g in 'vV▼▾':
            yield ('down', g, n, ['|'] * n + [g])
        for g in '^▲▴':
            yield ('up', g, n, [g] + ['|'] * n)
        for g in 'vV':
            yield ('downright', g, n, gen.diag('\\', n, '\\') + [' ' * n + g])
            yield ('downleft', g, n, [' ' + r for r in gen.diag('/', n, '/')] + [g])
        for g in '^':
            yield ('upleft', g, n, [g] + [' ' + r for r in gen.diag('\\', n, '\\')])
            yield ('upright', g, n, [' ' * n + g] + gen.diag('/', n, '/'))


def bullet_cases(lengths):
    for n in lengths:
        for b in '*oO':
            yield ('right-end', b, n, ['-' * n + b], (n, 0))
            yield ('left-end', b, n, [b + '-' * n], (0, 0))
            yield ('down-end', b, n, ['|'] * n + [b], (0, n))
            yield ('up-end', b, n, [b] + ['|'] * n, (0, 0))
            yield ('dr-end', b, n, gen.diag('\\', n, '\\') + [' ' * n + b], (n, n))
            yield ('dl-end', b, n, gen.diag('/', n, '/', 1) + [b], (0, n))
            yield ('ul-end', b, n, [b] + gen.diag('\\', n, '\\', 1), (0, 0))
            yield ('ur-end', b, n, [' ' * n + b] + gen.diag('/', n, '/'), (n, 0))
            yield ('h-mid', b, n, ['-' * n + b + '-' * n], (n, 0))
            yield ('v-mid', b, n, ['|'] * n + [b] + ['|'] * n, (0, n))
            # the same on dashed lines
            yield ('right-end-dashed', b, n, ['~' * n + b], (n, 0))
            yield ('left-end-dashed', b, n, [b + '~' * n], (0, 0))
            yield ('h-mid-dashed', b, n, ['~' * n + b + '~' * n], (n, 0))
            if n >= 2:
                for ch in ':!':
                    yield ('down-end-dashed', b, n, [ch] * n + [b], (0, n))
                    yield ('up-end-dashed', b, n, [b] + [ch] * n, (0, 0))


def dumbbell_cases(lengths):
    """a line of at least two cells with a bullet at each end (every bullet is still at an end of a line)"""
    for n in lengths:
        if n < 2:
            continue
        for b1 in '*oO':
            for b2 in '*oO':
                yield ('h', b1, b2, n, [b1 + '-' * n + b2], (0, 0), (n + 1, 0))
                yield ('v', b1, b2, n, [b1] + ['|'] * n + [b2], (0, 0), (0, n + 1))
                yield ('dr', b1, b2, n, [b1] + [' ' * (i + 1) + '\\' for i in range(n)] + [' ' * (n + 1) + b2], (0, 0), (n + 1, n + 1))
                yield ('dl', b1, b2, n, [' ' * (n + 1) + b1] + [' ' * (n - i) + '/' for i in range(n)] + [b2], (n + 1, 0), (0, n + 1))


def combo_cases(lengths):
    for n in lengths:
        for b in '*oO':
            for g in '>▶':
                yield ('right', b, g, n, [b + '-' * n + g], (0, 0))
                yield ('right', b, g, n, ['--' + b + '-' * (n - 1) + g], (2, 0))
            for g in '<◀':
                yield ('left', b, g, n, [g + '-' * n + b], (n + 1, 0))
                yield ('left', b, g, n, [g + '-' * (n - 1) + b + '--'], (n, 0))
            for g in 'vV▼':
                yield ('down', b, g, n, [b] + ['|'] * n + [g], (0, 0))
            for g in '^▲':
                yield ('up', b, g, n, [g] + ['|'] * n + [b], (0, n + 1))
            for g in 'vV':
                yield ('downright', b, g, n, [b] + gen.diag('\\', n, '\\', 1) + [' ' * (n + 1) + g], (0, 0))
                yield ('downleft', b, g, n, [' ' * (n + 1) + b] + gen.diag('/', n, '/', 1) + [g], (n + 1, 0))
            yield ('upright', b, '^', n, [' ' * (n + 1) + '^'] + gen.diag('/', n, '/', 1) + [b], (0, n + 1))
            yield ('upleft', b, '^', n, ['^'] + gen.diag('\\', n, '\\', 1) + [' ' * (n + 1) + b], (n + 1, n + 1))


def pair_cases(lengths):
    """two parallel arrows in neighbouring columns / rows: each keeps its own arrowhead"""
    for n in lengths:
        for g in 'vV':
            yield ('down', g, n, ['||'] * n + [g + g])
            yield ('down', g, n, ['| |'] * n + [g + ' ' + g])
            yield ('downright', g, n, [' ' * i + '\\\\' for i in range(n)] + [' ' * n + g + g])
        yield ('up', '^', n, ['^^'] + ['||'] * n)
        for g in '>':
            yield ('right', g, n, ['-' * n + g, '-' * n + g])
        yield ('left', '<', n, ['<' + '-' * n, '<' + '-' * n])
        yield ('down', 'v', n, ['|'] * n + ['vo'])
        yield ('down', 'v', n, ['|'] * n + ['vX'])


def check_pair(sc, dirn, want):
    flat = flat_of(sc)
    polys = [e for e in flat if e[0] == 'polygon']
    lines = [e for e in flat if e[0] == 'line']
    if len(polys) != want:
        return 'expected %d arrowhead polygons, got %d: %s' % (want, len(polys), [show_el(e) for e in flat[:6]])
    for p in polys:
        msgs = [arrow_vs_line([p], l, dirn) for l in lines]
        if not lines or all(msgs):
            return 'an arrowhead fits none of the lines: %s' % (msgs[-1] if msgs else 'no line')
    return None


def flat_of(sc):
    return [e for e, _ in sc.flat()]


def check_arrow(sc, dirn):
    flat = flat_of(sc)
    polys = [e for e in flat if e[0] == 'polygon']
    lines = [e for e in flat if e[0] == 'line']
    if len(polys) != 1 or len(lines) != 1 or len(flat) != 2:
        return 'expected one line and one polygon, got %s' % [show_el(e) for e in flat[:4]]
    return arrow_vs_line(polys, lines[0], dirn)


def check_combo(sc, b, cx, cy, dirn):
    """a bullet and an arrowhead on one line: both the bullet rule and the arrowhead rule"""
    flat = flat_of(sc)
    polys = [e for e in flat if e[0] == 'polygon']
    lines = [e for e in flat if e[0] == 'line']
    if any(e[0] == 'text' for e in flat):
        return 'shown as text: %s' % [show_el(e) for e in flat if e[0] == 'text']
    if len(polys) != 1 or not lines or len(polys) + len(lines) != len(flat):
        return 'expected lines and exactly one arrowhead polygon, got %s' % [show_el(e) for e in flat[:5]]
    msgs = [arrow_vs_line(polys, l, dirn) for l in lines]
    if all(msgs):
        return 'the arrowhead fits none of the lines: ' + msgs[-1]
    marked = [e for e in lines if any(c.endswith('marked_' + MK[b]) for c in e[1])]
    for e in marked:
        for c in e[1]:
            if c == 'end_marked_' + MK[b] and (e[4], e[5]) == (cx, cy):
                return None
            if c == 'start_marked_' + MK[b] and (e[2], e[3]) == (cx, cy):
                return None
    return 'no line is marked with %s at the centre (%s,%s) of the bullet cell: %s' % (MK[b], cx, cy, [show_el(e) for e in lines])


def arrow_vs_line(polys, L, dirn):
    Pg = polys[0][2]
    a, b = (L[2], L[3]), (L[4], L[5])
    if 'filled' not in polys[0][1] or len(Pg) != 3:
        return 'arrowhead is not a filled triangle: %s' % show_el(polys[0])
    tips = [p for p in Pg if cross(a, b, p) == 0]
    if len(tips) != 1:
        return 'exactly one vertex of the arrowhead must lie on the axis of the line, got %d: %s / %s' % (len(tips), show_el(polys[0]), show_el(L))
    tip = tips[0]
    base = [p for p in Pg if p != tip]
    da = dot((tip[0] - a[0], tip[1] - a[1]), (tip[0] - a[0], tip[1] - a[1]))
    db = dot((tip[0] - b[0], tip[1] - b[1]), (tip[0] - b[0], tip[1] - b[1]))
    near, far = (a, b) if da < db else (b, a)
    dirv = (near[0] - far[0], near[1] - far[1])
    if dot((tip[0] - near[0], tip[1] - near[1]), dirv) <= 0:
        return 'the tip %s does not lie beyond the end %s of the line' % (tip, near)
    if cross(a, b, base[0]) * cross(a, b, base[1]) >= 0:
        return 'the base of the arrowhead does not straddle the axis: %s' % show_el(polys[0])
    if any(dot((p[0] - near[0], p[1] - near[1]), dirv) >= dot((tip[0] - near[0], tip[1] - near[1]), dirv) for p in base):
        return 'a base vertex lies ahead of the tip: %s' % show_el(polys[0])
    exp = DIRS[dirn]
    if cross((0, 0), exp, dirv) != 0 or dot(exp, dirv) <= 0:
        return 'the arrow points along %s, drawn direction is %s %s' % ((float(dirv[0]), float(dirv[1])), dirn, exp)
    return None


def check_bullet(sc, b, cx, cy):
    flat = flat_of(sc)
    if any(e[0] == 'text' for e in flat):
        return 'the bullet is shown as text: %s' % [show_el(e) for e in flat if e[0] == 'text']
    if any(e[0] != 'line' for e in flat):
        return 'elements other than lines: %s' % [show_el(e) for e in flat if e[0] != 'line'][:3]
    marked = [e for e in flat if any(c.endswith('marked_' + MK[b]) for c in e[1])]
    if not marked:
        return 'no line carries the %s marker: %s' % (MK[b], [show_el(e) for e in flat[:4]])
    for e in marked:
        for c in e[1]:
            if c == 'end_marked_' + MK[b] and (e[4], e[5]) == (cx, cy):
                return None
            if c == 'start_marked_' + MK[b] and (e[2], e[3]) == (cx, cy):
                return None
    return 'the marked end is not the centre (%s,%s) of the bullet cell: %s' % (cx, cy, [show_el(e) for e in marked])


def check_outline(sc):
    flat = flat_of(sc)
    arcs = [e for e in flat if e[0] == 'path']
    lines = [e for e in flat if e[0] == 'line']
    if len(arcs) < 4 or len(arcs) + len(lines) != len(flat):
        return 'a rounded outline with a stub must be lines and at least 4 arcs, got %s' % [e[0] for e in flat]
    hends, vends = set(), set()
    for l in lines:
        if l[3] == l[5]:
            hends |= {(l[2], l[3]), (l[4], l[5])}
        if l[2] == l[4]:
            vends |= {(l[2], l[3]), (l[4], l[5])}
    for a in arcs:
        _, cls, x1, y1, rx, ry, rot, large, sweep, x2, y2 = a
        e1, e2 = (x1, y1), (x2, y2)
        if e1 in hends and e2 in vends:
            Pp, Q = e1, e2
        elif e2 in hends and e1 in vends:
            Pp, Q = e2, e1
        else:
            return 'arc %s does not join the end of a horizontal and of a vertical line (outline not continuous)' % show_el(a)
        if rx != ry:
            return 'arc %s is not circular' % show_el(a)
        (cx, cy), rr = arc_center(x1, y1, rx, large, sweep, x2, y2)
        if abs(cx - float(Pp[0])) > 1e-6 or abs(cy - float(Q[1])) > 1e-6:
            return 'arc %s bulges inward: centre (%.2f,%.2f), the inner side of the corner is (%s,%s)' % (show_el(a), cx, cy, Pp[0], Q[1])
    return None


def check_embedded(sc, heads, ox, oy):
    """arrowheads that terminate a line which is part of a bigger connected figure: each becomes a filled polygon
    in its cell with the tip beyond the line's end (the rest of the figure is not judged here)"""
    polys = [e for e, _ in sc.flat() if e[0] == 'polygon']
    texts = [e for e, _ in sc.flat() if e[0] == 'text']
    for (x, y, g, d) in heads:
        cx0, cy0 = F((ox + x) * 8), F((oy + y) * 16)
        inside = [p for p in polys if all(cx0 - 8 <= vx <= cx0 + 16 and cy0 - 16 <= vy <= cy0 + 32 for vx, vy in p[2])]
        ok = False
        for p in inside:
            xs = [v[0] for v in p[2]]
            ys = [v[1] for v in p[2]]
            if 'filled' not in p[1] or len(p[2]) != 3:
                continue
            # the tip is the vertex farthest in the direction of travel and lies on the axis through the cell centre
            if d == 'right' and any(v[1] == cy0 + 8 and v[0] == max(xs) and v[0] > cx0 for v in p[2]):
                ok = True
            if d == 'left' and any(v[1] == cy0 + 8 and v[0] == min(xs) and v[0] < cx0 + 8 for v in p[2]):
                ok = True
            if d == 'down' and any(v[0] == cx0 + 4 and v[1] == max(ys) and v[1] > cy0 for v in p[2]):
                ok = True
            if d == 'up' and any(v[0] == cx0 + 4 and v[1] == min(ys) and v[1] < cy0 + 16 for v in p[2]):
                ok = True
        if not ok:
            shown = [t for t in texts if t[4] and g in t[4]]
            return 'the %r at column %d, row %d ends a line towards %s but there is no filled polygon with its tip on that axis in the cell%s' % (
                g, x, y, d, ' (the character is shown as text)' if shown else '')
    return None


def embedded_case(rng):
    """a random figure over - | + with arrowheads planted where a line ends in free space"""
    w, h = rng.randint(6, 16), rng.randint(4, 9)
    dens = rng.choice([0.25, 0.4, 0.55])
    g = [[(rng.choice('-|+') if rng.random() < dens else ' ') for _ in range(w)] for _ in range(h)]
    if rng.random() < 0.5:
        # a scaffold: a trunk on the left with branches, a box on the upper right
        for y in range(h):
            g[y][0] = '|' if y % 2 else '+'
            if y % 2 == 0:
                g[y][1] = '-'
    def free(x, y):
        return not (0 <= x < w and 0 <= y < h) or g[y][x] == ' '
    heads = []
    cand = []
    for y in range(h):
        for x in range(w):
            if g[y][x] == '-' and x + 1 < w and all(free(x + 1 + dx, y + dy) for dx in (0, 1) for dy in (-1, 0, 1)):
                cand.append((x + 1, y, '>', 'right'))
            if g[y][x] == '-' and x - 1 >= 0 and all(free(x - 1 - dx, y + dy) for dx in (0, 1) for dy in (-1, 0, 1)):
                cand.append((x - 1, y, '<', 'left'))
            if g[y][x] == '|' and y + 1 < h and all(free(x + dx, y + 1 + dy) for dx in (-1, 0, 1) for dy in (0, 1)):
                cand.append((x, y + 1, rng.choice('vV'), 'down'))
            if g[y][x] == '|' and y - 1 >= 0 and all(free(x + dx, y - 1 - dy) for dx in (-1, 0, 1) for dy in (0, 1)):
                cand.append((x, y - 1, '^', 'up'))
    rng.shuffle(cand)
    for c in cand[:3]:
        x, y = c[0], c[1]
        if g[y][x] != ' ' or any(abs(x - hx) <= 2 and abs(y - hy) <= 2 for hx, hy, _, _ in heads):
            continue
        g[y][x] = c[2]
        heads.append(c)
    return [''.join(r).rstrip() for r in g], heads


def check_case(ctx, case):
    rows = case['rows']
    ox, oy = case['ox'], case['oy']
    doc = [''] * oy + [' ' * ox + r for r in rows]
    # a quarter of the cases at another scale; 5, 2.5, 13 and 1 keep every coordinate a dyadic rational that f32
    # and its decimal print hold exactly, so the exact comparisons below still apply after dividing by scale/8
    hk = key_of(doc)
    scale = [5.0, 2.5, 13.0, 1.0][hk[1] % 4] if hk[0] % 4 == 0 else 8.0
    r = ctx.conv(gen.text_of(doc), scale=scale)
    if not r.ok:
        return 'conversion failed: ' + r.fail_text()
    if scale != 8.0:
        ctx.tag('cases_at_other_scales')
    try:
        sc = Scene(r.out, sc=F(scale) / 8)
    except Malformed as e:
        return 'output not parseable: %s' % e
    k = case['kind']
    ctx.note(key_of(doc), True, k + 's', k + '_' + str(case.get('what')))
    if k == 'arrowhead':
        msg = check_arrow(sc, case['what'])
    elif k == 'bullet':
        bx, by = case['at']
        msg = check_bullet(sc, case['glyph'], F((ox + bx) * 8 + 4), F((oy + by) * 16 + 8))
    elif k == 'pair':
        msg = check_pair(sc, case['what'], case['want'])
    elif k == 'dumbbell':
        (x1, y1), (x2, y2) = case['at']
        msg = (check_bullet(sc, case['glyph'][0], F((ox + x1) * 8 + 4), F((oy + y1) * 16 + 8))
               or check_bullet(sc, case['glyph'][1], F((ox + x2) * 8 + 4), F((oy + y2) * 16 + 8)))
    elif k == 'combo':
        bx, by = case['at']
        msg = check_combo(sc, case['bullet'], F((ox + bx) * 8 + 4), F((oy + by) * 16 + 8), case['what'])
    elif k == 'embedded':
        msg = check_embedded(sc, case['heads'], ox, oy)
    else:
        msg = check_outline(sc)
    if msg:
        return '%s %r (%s, length %s) at offset (%d,%d)%s: %s' % (k, case.get('glyph'), case.get('what'), case.get('n'), ox, oy, '' if scale == 8.0 else ' at scale %s' % scale, msg)
    return None


STYLES = [(".", ".", "'", "'"), (",", ".", "`", "'"), ("╭", "╮", "╰", "╯"), (".", ".", "\u2019", "\u2019"), (",", ".", "\u2019", "\u2019")]


def run_shard(ctx, shard):
    k = shard['kind']
    offs = [(0, 0), (3, 2)]
    if k == 'embedded':
        rng = rng_for(ctx.seed, ID, shard['name'])
        for i in range(shard['n']):
            rows, heads = embedded_case(rng)
            if not heads:
                continue
            ctx.run_case({'kind': 'embedded', 'what': 'figure', 'glyph': ''.join(hd[2] for hd in heads), 'n': len(heads), 'rows': rows, 'heads': heads,
                          'ox': rng.choice([0, 3]), 'oy': rng.choice([0, 2])})
            if i == 0:
                ctx.sample({'embedded': rows})
        return
    if k == 'arrows':
        for dirn, g, n, rows in arrow_cases(shard['lengths']):
            for ox, oy in offs:
                ctx.run_case({'kind': 'arrowhead', 'what': dirn, 'glyph': g, 'n': n, 'rows': rows, 'ox': ox, 'oy': oy})
        ctx.sample({'arrow': rows})
    elif k == 'pairs':
        for dirn, g, n, rows in pair_cases(shard['lengths']):
            want = 1 if rows[-1] in ('vo', 'vX') else 2
            for ox, oy in offs:
                ctx.run_case({'kind': 'pair', 'what': dirn, 'glyph': g, 'n': n, 'rows': rows, 'want': want, 'ox': ox, 'oy': oy})
        ctx.sample({'pair': rows})
    elif k == 'combos':
        for dirn, b, g, n, rows, at in combo_cases(shard['lengths']):
            for ox, oy in offs:
                ctx.run_case({'kind': 'combo', 'what': dirn, 'glyph': g, 'bullet': b, 'n': n, 'rows': rows, 'at': at, 'ox': ox, 'oy': oy})
        ctx.sample({'combo': rows})
    elif k == 'bullets':
        for name, b1, b2, n, rows, p1, p2 in dumbbell_cases(shard['lengths']):
            for ox, oy in [(0, 0), (3, 2)]:
                ctx.run_case({'kind': 'dumbbell', 'what': name, 'glyph': b1 + b2, 'n': n, 'rows': rows, 'at': (p1, p2), 'ox': ox, 'oy': oy})
        for name, b, n, rows, at in bullet_cases(shard['lengths']):
            for ox, oy in [(0, 0), (2, 1)]:
                ctx.run_case({'kind': 'bullet', 'what': name, 'glyph': b, 'n': n, 'rows': rows, 'at': at, 'ox': ox, 'oy': oy})
        ctx.sample({'bullet': rows})
    else:
        tl, tr, bl, br = STYLES[shard['style']]
        uni = tl == '╭'
        hz = '─' if uni else '-'
        vt = '│' if uni else '|'
        for w in shard['widths']:
            for h in shard['heights']:
                for stub in range(3):
                    if stub == 0:
                        # the top edge continues to the right (ascii) / carries a stub upwards (box drawing)
                        if uni:
                            # a junction glyph in the top edge with a stub upwards (`╮─` does not form a junction)
                            if w < 1:
                                continue
                            rows = [' ' * (1 + w // 2) + vt] + [tl + hz * (w // 2) + '┴' + hz * (w - w // 2 - 1) + tr] + [vt + ' ' * w + vt] * h + [bl + hz * w + br]
                        else:
                            rows = [tl + hz * w + tr + hz] + [vt + ' ' * w + vt] * h + [bl + hz * w + br]
                    elif stub == 1:
                        # a stub below the bottom edge
                        if uni:
                            if w < 1:
                                continue
                            rows = [tl + hz * w + tr] + [vt + ' ' * w + vt] * h + [bl + hz * (w // 2) + '┬' + hz * (w - w // 2 - 1) + br] + [' ' * (1 + w // 2) + vt]
                        else:
                            rows = [tl + hz * w + tr] + [vt + ' ' * w + vt] * h + [bl + hz * w + br + hz]
                    else:
                        # a stub on the left of a side
                        if h < 1:
                            continue
                        mid = h // 2
                        side = '┤' if uni else '+'
                        body = [' ' + vt + ' ' * w + vt] * h
                        body[mid] = hz + side + ' ' * w + vt
                        rows = [' ' + tl + hz * w + tr] + body + [' ' + bl + hz * w + br]
                    ctx.run_case({'kind': 'outline', 'what': 'style%d-stub%d' % (shard['style'], stub), 'glyph': tl, 'n': (w, h), 'rows': rows, 'ox': 0, 'oy': 0})
        ctx.sample({'outline': rows})


def execute(run):
    binary = build_driver()
    shards = []
    if run.tier == 'quick':
        shards += [{'kind': 'arrows', 'name': 'arrows-%d' % i, 'lengths': list(range(1 + i, 41, 4))} for i in range(4)]
        shards += [{'kind': 'bullets', 'name': 'bullets-%d' % i, 'lengths': list(range(1 + i, 25, 4))} for i in range(4)]
        shards += [{'kind': 'combos', 'name': 'combos-%d' % i, 'lengths': list(range(1 + i, 13, 4))} for i in range(4)]
        shards += [{'kind': 'pairs', 'name': 'pairs-%d' % i, 'lengths': list(range(1 + i, 13, 4))} for i in range(4)]
        for st in range(len(STYLES)):
            shards += [{'kind': 'outlines', 'name': 'outlines-%d-%d' % (st, i), 'style': st, 'widths': [1, 2, 3, 4, 5, 8, 13, 21, 29, 30][i::2], 'heights': [1, 2, 3, 4, 7, 11, 15]} for i in range(2)]
    else:
        shards += [{'kind': 'arrows', 'name': 'arrows-%d' % i, 'lengths': list(range(1 + i, 41, 8))} for i in range(8)]
        shards += [{'kind': 'bullets', 'name': 'bullets-%d' % i, 'lengths': list(range(1 + i, 41, 8))} for i in range(8)]
        shards += [{'kind': 'combos', 'name': 'combos-%d' % i, 'lengths': list(range(1 + i, 41, 8))} for i in range(8)]
        shards += [{'kind': 'pairs', 'name': 'pairs-%d' % i, 'lengths': list(range(1 + i, 41, 8))} for i in range(8)]
        for st in range(len(STYLES)):
            shards += [{'kind': 'outlines', 'name': 'outlines-%d-%d' % (st, i), 'style': st, 'widths': list(range(1 + i, 31, 6)), 'heights': list(range(1, 16))} for i in range(6)]
        run.extra_cov['exhaustive_scopes'] = ['arrow glyphs x 8 directions x lengths 1..40 x 2 offsets', 'bullets x 10 placements x lengths 1..40 x 2 offsets',
                                              'rounded outlines 1..30 x 1..15 x 3 styles x 3 stub placements']
    shards += [{'kind': 'embedded', 'name': 'embedded-%d' % i, 'n': 1500 if run.tier == 'quick' else 12000} for i in range(8)]
    run.run_shards(binary, shards)


if __name__ == '__main__':
    sys.exit(main(sys.modules[__name__]))
