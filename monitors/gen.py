"""Workload generators shared by the monitors."""
import glob
import os

from vlib import REPO, cw

ASCII_DRAW = "-|+/\\.,'`()_*oO#<>^vV=~:!xX"
UNI_DRAW = "─│┌┐└┘├┤┬┴┼╭╮╯╰╱╲╳═║▲▼◀▶┄┊"
UNI_MORE = "¯–—‾∠≠⊕⋀⌊┆╎╒╓╔╕╖╗╘╙╚╛╜╝╞╟╠╡╢╣╤╥╦╧╨╩╪╫╬▁▂▃▄▅▆▇█▏▕□▪△▴▸►▾◂◄◆○●◜◝◞◟⤹⦵￮"
# letters and digits without a drawing meaning
PLAIN = "abcdefghijklmnpqrstuwyzABCDEFGHIJKLMNPQRSTUWYZ0123456789"
FULL = ASCII_DRAW + UNI_DRAW + "ab"


def random_grid(rng, alphabet, wmax=16, hmax=8, dens=None, wmin=1, hmin=1):
    w = rng.randint(wmin, wmax)
    h = rng.randint(hmin, hmax)
    if dens is None:
        dens = rng.choice([0.3, 0.6, 0.9])
    return [''.join(rng.choice(alphabet) if rng.random() < dens else ' ' for _ in range(w)) for _ in range(h)]


def text_of(rows):
    return '\n'.join(rows) + '\n'


def shift(rows, k, n):
    """the same drawing k columns to the right and n rows down"""
    return [''] * n + [(' ' * k + r) if r.strip() else r for r in rows]


def width_of(rows):
    return max([sum(cw(c) for c in r) for r in rows] + [0])


def pad_rows(rows, width):
    return [r + ' ' * (width - sum(cw(c) for c in r)) for r in rows]


def bundled(strip_legend=True, max_rows=None):
    """the diagrams shipped with the repository: (name, rows)"""
    out = []
    for f in sorted(glob.glob(os.path.join(REPO, 'crates/svgbob/test_data/*.bob'))):
        s = open(f, encoding='utf-8').read()
        if strip_legend:
            i = s.find('# Legend:')
            if i >= 0:
                s = s[:i]
        rows = s.split('\n')
        if rows and rows[-1] == '':
            rows.pop()
        if max_rows:
            rows = rows[:max_rows]
        out.append((os.path.basename(f), rows))
    return out


def blocks_of(rows, rng, h=12, w=60):
    """a window of a big diagram"""
    if not rows:
        return rows
    y = rng.randrange(max(1, len(rows) - h + 1))
    sub = rows[y:y + h]
    x = rng.randrange(max(1, max(len(r) for r in sub) - w + 1)) if sub else 0
    return [r[x:x + w] for r in sub]


BOX_STYLES = {
    'sharp': dict(tl='+', tr='+', bl='+', br='+', hz='-', vt='|'),
    'round1': dict(tl='.', tr='.', bl="'", br="'", hz='-', vt='|'),
    'round2': dict(tl=',', tr='.', bl='`', br="'", hz='-', vt='|'),
    'uni': dict(tl='┌', tr='┐', bl='└', br='┘', hz='─', vt='│'),
    'unir': dict(tl='╭', tr='╮', bl='╰', br='╯', hz='─', vt='│'),
}


def box(w, h, tl='+', tr='+', bl='+', br='+', hz='-', vt='|', inner=None):
    """a closed box of interior width w and interior height h; inner: {row: text}"""
    rows = [tl + hz * w + tr]
    for r in range(h):
        t = (inner or {}).get(r, '')
        rows.append(vt + t + ' ' * (w - len(t)) + vt)
    rows.append(bl + hz * w + br)
    return rows


def diag(ch, n, kind, off=0):
    if kind == '/':
        return [' ' * (off + n - 1 - i) + ch for i in range(n)]
    return [' ' * (off + i) + ch for i in range(n)]
