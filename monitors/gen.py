"""Workload generators shared by the monitors."""
import glob
import os

from vlib import REPO, cw

ASCII_DRAW = "-|+/\\.,'`()_*oO#<>^vV=~:!xX\u2019"
UNI_DRAW = "─│┌┐└┘├┤┬┴┼╭╮╯╰╱╲╳═║▲▼◀▶┄┊"
UNI_MORE = "¯–—‾∠≠⊕⋀⌊┆╎╒╓╔╕╖╗╘╙╚╛╜╝╞╟╠╡╢╣╤╥╦╧╨╩╪╫╬▁▂▃▄▅▆▇█▏▕□▪△▴▸►▾◂◄◆○●◜◝◞◟⤹⦵￮"
# letters and digits without a drawing meaning
PLAIN = "abcdefghijklmnpqrstuwyzABCDEFGHIJKLMNPQRSTUWYZ0123456789"
FULL = ASCII_DRAW + UNI_DRAW + "ab"


def random_grid(rng, alphabet, wmax=16, hmax=8, dens=None, wmin=1, hmin=1):
    w = rng.randint(wmin, wmax)
    h = rng.randint(hmin, hmax)
    if dens is None:
        dens = rng.choice([0.3, 0.6, 0.9])
    return [''.join(rng.choice(alphabet) if rng.random() < dens else ' ' for _ in range(w)) for _ in range(h)]


def text_of(rows):
    return '\n'.join(rows) + '\n'


def shift(rows, k, n):
    """the same drawing k columns to the right and n rows down"""
    return [''] * n + [(' ' * k + r) if r.strip() else r for r in rows]


def width_of(rows):
    return max([sum(cw(c) for c in r) for r in rows] + [0])


def pad_rows(rows, width):
    return [r + ' ' * (width - sum(cw(c) for c in r)) for r in rows]


def bundled(strip_legend=True, max_rows=None):
    """the diagrams shipped with the repository: (name, rows)"""
    out = []
    for f in sorted(glob.glob(os.path.join(REPO, 'crates/svgbob/test_data/*.bob'))):
        s = open(f, encoding='utf-8').read()
        if strip_legend:
            i = s.find('# Legend:')
            if i >= 0:
                s = s[:i]
        rows = s.split('\n')
        if rows and rows[-1] == '':
            rows.pop()
        if max_rows:
            rows = rows[:max_rows]
        out.append((os.path.basename(f), rows))
    return out


def blocks_of(rows, rng, h=12, w=60):
    """a window of a big diagram"""
    if not rows:
        return rows
    y = rng.randrange(max(1, len(rows) - h + 1))
    sub = rows[y:y + h]
    x = rng.randrange(max(1, max(len(r) for r in sub) - w + 1)) if sub else 0
    return [r[x:x + w] for r in sub]


BOX_STYLES = {
    'sharp': dict(tl='+', tr='+', bl='+', br='+', hz='-', vt='|'),
    'round1': dict(tl='.', tr='.', bl="'", br="'", hz='-', vt='|'),
    'round2': dict(tl=',', tr='.', bl='`', br="'", hz='-', vt='|'),
    'uni': dict(tl='┌', tr='┐', bl='└', br='┘', hz='─', vt='│'),
    'unir': dict(tl='╭', tr='╮', bl='╰', br='╯', hz='─', vt='│'),
}


def box(w, h, tl='+', tr='+', bl='+', br='+', hz='-', vt='|', inner=None):
    """a closed box of interior width w and interior height h; inner: {row: text}"""
    rows = [tl + hz * w + tr]
    for r in range(h):
        t = (inner or {}).get(r, '')
        rows.append(vt + t + ' ' * (w - len(t)) + vt)
    rows.append(bl + hz * w + br)
    return rows


def diag(ch, n, kind, off=0):
    if kind == '/':
        return [' ' * (off + n - 1 - i) + ch for i in range(n)]
    return [' ' * (off + i) + ch for i in range(n)]


# -------------------------------------------------------------------------------------------------
# a mixed corpus of legend-free diagrams

_BUNDLED_CACHE = {}


def _bundled_cached():
    if 'b' not in _BUNDLED_CACHE:
        _BUNDLED_CACHE['b'] = bundled(strip_legend=True)
    return _BUNDLED_CACHE['b']


ARROWS_R = '>▶▸►'
ARROWS_L = '<◀◂◄'
ARROWS_D = 'vV▼▾'
ARROWS_U = '^▲▴'


PAGE_TOKENS = [('-',), ('--',), ('|',), ('+',), ('ab',), ('k',), ('+-+',), ('->',), ('<-',), ('*-',), ('o',), ('()',), ('_',), ('/',), ('\\',),
               ('~~',), ('::',), ('=',), ("'",), ('.',), ('\u00e9\u65e5',), ('\u25b6',), ('\u25cb',), ('(_)',), ('.-.', "'-'"), ('+-+', '+-+'), ('|', 'v'),
               ('/', '\\'), ('.', '|'), ('x9',), ('-->',), ('!',), ('\u2502',), ('\u250c\u2510', '\u2514\u2518')]


def page(rng, groups):
    """a big sparse page: about `groups` small figures and words that touch nothing (size thresholds in the
    grouping / merging code are crossed by the number of groups, not by the size of one figure)"""
    cols = rng.randint(4, 18)
    rows = []
    k = 0
    while k < groups:
        band = ['', '', '']
        for x in range(cols):
            t = rng.choice(PAGE_TOKENS) if rng.random() < 0.85 and k < groups else ()
            if t:
                k += 1
            for y in range(3):
                band[y] += (t[y] if y < len(t) else '').ljust(6)
        while band and not band[-1].strip():
            band.pop()
        rows += [b.rstrip() for b in band] + ['']
    return rows


PAIRS = [('\u201c', '\u201d'), ('\u2018', '\u2019'), ('\u00ab', '\u00bb'), ('\u201e', '\u201c'), ('\u201d', '\u201d'), ('\u2039', '\u203a'),
         ('[', ']'), ('\u300c', '\u300d'), ('\uff02', '\uff02'), ('\u2033', '\u2033')]


def diagram(rng, circles, allow_quotes=False, allow_braces=False, small=False):
    """(kind, rows) - rows never contain a legend; quotes/braces only when allowed"""
    if not small and rng.random() < 0.025:
        return 'page', page(rng, rng.choice([20, 40, 70, 140, 300]))
    q = rng.random()
    if q < 0.45:
        alpha = rng.choice([FULL, ASCII_DRAW + 'ab', ASCII_DRAW + UNI_DRAW + UNI_MORE + 'abé日', ASCII_DRAW + 'ab\u1100\u26a1\u2b50', "-|+.'`,/\\ab", "()_-.'`,/\\|"])
        if allow_braces:
            alpha += '{}'
        rows = random_grid(rng, alpha, wmax=10 if small else 16, hmax=6 if small else 8)
        kind = 'grid'
    elif q < 0.6:
        name, rows = rng.choice(_bundled_cached())
        rows = blocks_of(rows, rng, h=rng.choice([4, 8] if small else [6, 12]), w=rng.choice([20, 40] if small else [30, 60]))
        if not allow_quotes:
            rows = [r.replace('"', "'") for r in rows]
        if not allow_braces:
            rows = [r.replace('{', '(').replace('}', ')') for r in rows]
        kind = 'bundled'
    elif q < 0.75:
        st = BOX_STYLES[rng.choice(list(BOX_STYLES))]
        w = rng.randint(1, 12)
        h = rng.randint(0, 5)
        inner = {}
        if h and w >= 4 and rng.random() < 0.5:
            inner[rng.randrange(h)] = ' ' + rng.choice(['ab', 'hi', 'k9'])[:w - 2]
        rows = box(w, h, inner=inner, **st)
        kind = 'box'
    elif q < 0.87 and circles:
        rows = list(rng.choice(circles))
        kind = 'circle'
    elif q < 0.94:
        n = rng.choice([2, 5, 9, 10, 12, 15, 20, 33, 60] if not small else [2, 5, 9, 12])
        ch = rng.choice('/\\╱╲')
        rows = diag(ch, n, '/' if ch in '/╱' else '\\')
        kind = 'diagonal'
    else:
        n = rng.randint(1, 12)
        g = rng.randrange(6)
        if g == 0:
            rows = ['-' * n + rng.choice(ARROWS_R)]
        elif g == 1:
            rows = [rng.choice(ARROWS_L) + '-' * n]
        elif g == 2:
            rows = ['|'] * n + [rng.choice(ARROWS_D)]
        elif g == 3:
            rows = [rng.choice(ARROWS_U)] + ['|'] * n
        elif g == 4:
            rows = [rng.choice('*oO') + '-' * n + rng.choice('*oO')]
        else:
            rows = diag('\\', n, '\\') + [' ' * n + rng.choice('vV')]
        kind = 'arrow'
    rows = [r.rstrip() for r in rows]
    if rows and rng.random() < 0.02:
        # the document starts with a byte order mark (files saved by some editors): a character like any other
        rows = ['\ufeff' + rows[0]] + list(rows[1:])
    if not ordinary_cells(rows):
        # at least one ordinary cell: an empty drawing has no position
        rows = ['+']
    if rows and rng.random() < 0.06:
        # a caption in typographic or other paired punctuation, to the right of a row or below the drawing: ordinary
        # label characters (only the ASCII double quote delimits quoted text)
        a, b = rng.choice(PAIRS)
        cap = a + rng.choice(['fig 1', 'note', 'a', 'see b', 'ab cd']) + b
        rows = list(rows)
        if rng.random() < 0.5:
            y = rng.randrange(len(rows))
            rows[y] = rows[y] + '  ' + cap
        else:
            rows += [''] * rng.choice([1, 2]) + [' ' * rng.randint(0, 6) + cap]
    if allow_quotes and rng.random() < 0.3 and rows:
        y = rng.randrange(len(rows))
        rows = list(rows)
        rows[y] = rows[y] + ' "' + rng.choice(['q', 'a-b', '<&>', '|+|', '日本', 'é']) + '"'
    return kind, rows


def kinds_in(scene):
    """tags for the coverage counters: which element kinds a scene contains (grouped or not)"""
    out = set()
    for e, ing in scene.flat():
        out.add(('g_' if ing else '') + e[0])
        if e[0] == 'line' and any('marked' in c for c in e[1]):
            out.add('marker_line')
    return out


# -------------------------------------------------------------------------------------------------
# the layout rules of the input text, as documented: display columns and quoted segments

RUST_WS = set(map(chr, list(range(9, 14)) + [0x20, 0x85, 0xa0, 0x1680] + list(range(0x2000, 0x200b)) + [0x2028, 0x2029, 0x202f, 0x205f, 0x3000]))


def columns(row):
    """the characters of a row by display column, a double-width character is followed by a NUL filler"""
    out = []
    for ch in row:
        out.append(ch)
        if cw(ch) == 2:
            out.append('\0')
    return out


def quoted_segments(cols):
    """(open, close) column pairs of the "quoted" segments of a row; \\" does not close a segment"""
    out = []
    i = 0
    n = len(cols)
    while True:
        j = i
        while j < n and cols[j] != '"':
            j += 1
        if j >= n:
            break
        k = j + 1
        while k < n:
            if cols[k] == '\\' and k + 1 < n and cols[k + 1] == '"':
                k += 2
            elif cols[k] != '"':
                k += 1
            else:
                break
        if k >= n:
            break
        out.append((j, k))
        i = k + 1
    return out


def ordinary_cells(rows):
    """(column, row, char) of every non-blank character outside quoted segments"""
    out = []
    for y, row in enumerate(rows):
        cols = columns(row)
        segs = quoted_segments(cols)
        inq = set()
        for a, b in segs:
            inq.update(range(a, b + 1))
        for x, ch in enumerate(cols):
            if x not in inq and ch != '\0' and ch not in RUST_WS:
                out.append((x, y, ch))
    return out


def bundled_whole(with_legend=False):
    """the bundled diagrams as whole documents: (name, rows)"""
    return bundled(strip_legend=not with_legend)


TAG_NAMES = ['a', 'b1', 'red', 'bigc', 'w', 'k9', 'q7z', 'abc', 'A', 'Zz', 'n0', 'thick',
             # names svgbob's own style sheet uses: a tag may name them too (`{filled}` in a box is how a user fills it)
             'filled', 'broken', 'solid', 'nofill', 'dashed', 'svgbob', 'text', 'rect', 'circle']


def tagged_shape(rng):
    """a box carrying several class tags (one {a,b,c} tag and/or several separate tags), optionally nested"""
    names = rng.sample(TAG_NAMES, rng.randint(2, 5))
    if rng.random() < 0.5:
        inner = ' {' + ','.join(names) + '}'
    else:
        inner = ' ' + ' '.join('{' + n + '}' for n in names)
    w = len(inner) + 2
    rows = box(w, 1, inner={0: inner})
    return rows


def annotated_open(rng):
    """an open figure (a slope, an arrow, an elbow) with a {tag} or a label inside its bounding box: no closed shape"""
    n = rng.randint(5, 9)
    note = rng.choice(['{a}', '{a}', '{k9}', 'hi', '{a,b}'])
    q = rng.randrange(4)
    if q == 0:
        rows = [' ' * y + '\\' for y in range(n)]
        rows[0] = '\\  ' + note
    elif q == 1:
        rows = [' ' * (n - 1 - y) + '/' for y in range(n)]
        rows[n - 1] = '/  ' + note
    elif q == 2:
        rows = ['+' + '-' * (n + 3), '|', '|  ' + note, '|']
    else:
        rows = [' ' * y + '\\' for y in range(n)] + [' ' * n + 'v']
        rows[1] = ' \\  ' + note
    return rows
