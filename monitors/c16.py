"""C16 - legend entries become CSS rules and {tags} style the enclosing shape.

Oracle: the style element ends with exactly the rules `.svgbob .<name>{ <declarations> }` of the generated
entries, in order (compared modulo css white space, after XML unescaping); nothing from the legend line on is
drawn (scene == scene of the body alone); every generated shape carries exactly base classes + the names of
the tags whose innermost enclosing shape it is; tag texts are absent, other interior text is present; a tag
outside every shape stays text.
"""
import sys

import gen
from vlib import F, Malformed, Scene, build_driver, driver_info, key_of, main, multiset_match, rng_for, show_el

ID = 'C16'
LEVEL = 'exploration'
RULE = ('legends: 0..6 entries `name = {declarations}` at column 0 (identifiers x declarations over any characters but braces, '
        'incl. newlines, quotes, markup) x header/trailing blank variants x a malformed last entry; tags: one or several names of '
        'plain letters/digits in boxes, rounded boxes, circles, nested boxes (depth <= 4), next to other text, outside shapes, at '
        'scales {0.5,1,8,20}; non-trivial = distinct document with a legend entry or a tag')
ASSUMPTIONS = ['tag names avoid the drawing letters _ o O v V x X (`{big_c}` is legitimately split by the _ line)',
               'a tag is separated from other text by a blank; what follows a legend line that is not an entry is outside the quantifier',
               'the css is compared modulo white space; characters XML cannot represent are dropped (C02)']
FLOORS = {'quick': {'legend_documents': 2000, 'tag_placements': 1000, 'nesting_depth_ge2': 200},
          'thorough': {'legend_documents': 40000, 'tag_placements': 20000, 'nesting_depth_ge2': 4000}}
NAMES = ['a', 'b1', 'red', 'bigc', 'w', 'k9', 'q7z', 'abc', 'A', 'Zz', 'n0', 'thick',
         # names svgbob's own style sheet uses (`{filled}` in a box is how a user fills it): a tag may name them too
         'filled', 'broken', 'solid', 'nofill', 'dashed', 'svgbob']
IDENTS = ['a', 'b1', 'big_circle', '_x', 'red', 'A9_', 'q', 'solid2', 'nofill_', 'Z']
DECL_CHARS = "abc:; -#0123456789,.()%'\"<>&!*/\n\t=@[]|\\é日"


def xml_illegal(c):
    o = ord(c)
    return o < 0x20 and c not in '\t\n\r' or o in (0xfffe, 0xffff)


def css_norm(s):
    return ' '.join(''.join(c for c in s if not xml_illegal(c)).split())


def nested(tags_per_level, rng, rounded=False):
    """nested boxes, innermost first in tags_per_level; returns rows and [(x, y, w, h, tags)] in cells"""
    rows = None
    rects = []
    for lvl, tags in enumerate(tags_per_level):
        tagtxt = ' '.join('{' + ','.join(t) + '}' for t in tags)
        if rows is None:
            w = len(tagtxt) + 2
            rows = ['+' + '-' * w + '+', '| ' + tagtxt + ' |', '+' + '-' * w + '+']
            rects = [(0, 0, w + 1, 2, set(n for t in tags for n in t))]
        else:
            iw = len(rows[0])
            w = max(iw + 4, len(tagtxt) + 2)
            new = ['+' + '-' * w + '+', '| ' + tagtxt + ' ' * (w - len(tagtxt) - 1) + '|']
            for r in rows:
                new.append('|  ' + r + ' ' * (w - iw - 2) + '|')
            new.append('+' + '-' * w + '+')
            rects = [(x + 3, y + 2, ww, hh, tg) for (x, y, ww, hh, tg) in rects]
            rects.append((0, 0, w + 1, len(new) - 1, set(n for t in tags for n in t)))
            rows = new
    return rows, rects


def check_case(ctx, case):
    body = case['body']
    doc = gen.text_of(body)
    legend = case.get('legend')
    if legend is not None:
        doc += legend['text']
    if case.get('crlf'):
        doc = doc.replace('\n', '\r\n')
    sc_ = case.get('scale', 8.0)
    s = F(repr(sc_))
    r = ctx.conv(doc, flags=2, scale=sc_)
    if not r.ok:
        return 'conversion failed: ' + r.fail_text()
    try:
        sc = Scene(r.out)
    except Malformed as e:
        return 'output not parseable: %s' % e
    tags = []
    if legend is not None:
        tags.append('legend_documents')
        if legend.get('malformed'):
            tags.append('legend_malformed_last')
    if case.get('shapes') is not None:
        tags.append('tag_placements')
        tags.append('placement_' + case['kind'])
        if case.get('depth', 1) >= 2:
            tags.append('nesting_depth_ge2')
    ctx.note(key_of(doc, sc_), bool(legend and legend['entries']) or bool(case.get('shapes')), *tags)
    if legend is not None:
        css = css_norm(sc.style[0].text) if sc.style else None
        want = css_norm('\n'.join('.svgbob .%s{ %s }' % (n, d) for n, d in legend['entries']))
        if css is None or not (css.endswith(' ' + want) if want else True):
            return 'legend rules: style sheet ends with %r, expected the rules %r' % ((css or '')[-len(want) - 30:], want)
        if not want and css is not None and '.svgbob .' + (legend.get('malformed_name') or '\0') + '{' in css:
            return 'a malformed entry produced a rule'
        # the built-in sheet must be followed by nothing but the rules
        base = ctx.conv('\n', flags=2, scale=sc_)
        bcss = css_norm(Scene(base.out).style[0].text)
        if css != (bcss + ' ' + want).strip():
            return 'style sheet is not the built-in sheet followed by exactly the legend rules: tail %r' % css[len(bcss):][:200]
        rb = ctx.conv(gen.text_of(body).replace('\n', '\r\n') if case.get('crlf') else gen.text_of(body), flags=2, scale=sc_)
        sb = Scene(rb.out)
        ua, ub = multiset_match(sb.leaves(), sc.leaves(), F(0))
        if ua or ub or (sb.W, sb.H) != (sc.W, sc.H):
            return 'the legend is drawn or changes the drawing: only without legend %s; only with legend %s' % (
                [show_el(e) for e in ua[:3]], [show_el(e) for e in ub[:3]])
    shapes = case.get('shapes')
    if shapes is not None:
        # the names of the tags must be in the class attribute; whatever else the shape carries must be svgbob's own
        # classes (a tag may name one of those too: `{filled}`, `{broken}`)
        OWN = {'rect': {'solid', 'nofill', 'broken'}, 'circle': {'nofill', 'filled'}}
        got = []
        for e, ing in sc.flat():
            if e[0] == 'rect':
                got.append(('rect', (e[2] / s - F(1, 2), e[3] / (2 * s) - F(1, 2), e[4] / s, e[5] / (2 * s)), set(e[1])))
            elif e[0] == 'circle':
                got.append(('circle', None, set(e[1])))
        want = []
        for sh in shapes:
            if sh[0] == 'rect':
                want.append(('rect', tuple(F(v) for v in sh[1]), set(sh[2])))
            else:
                want.append(('circle', None, set(sh[2])))
        key = lambda t: (t[0], repr(t[1]), sorted(t[2] - OWN[t[0]]))
        gs, ws = sorted(got, key=key), sorted(want, key=key)
        shown = lambda l: [(t[0], t[1], sorted(t[2] - OWN[t[0]])) for t in l]
        if len(gs) != len(ws) or any(g[0] != w[0] or g[1] != w[1] or not (w[2] <= g[2]) or (g[2] - w[2]) - OWN[g[0]] for g, w in zip(gs, ws)):
            return 'shape classes: got %s, expected %s' % ([(t[0], t[1], sorted(t[2])) for t in gs], shown(ws))
        texts = [e[4] for e, _ in sc.flat() if e[0] == 'text']
        for t in case.get('absent', []):
            if any(t in x for x in texts):
                return 'the tag %r is rendered as text: %r' % (t, texts)
        for t in case.get('present', []):
            if t not in texts:
                return 'text %r is missing: %r' % (t, texts)
    return None


def make_legend(rng):
    header = '# Legend:' + rng.choice(['', ' ', '  ', '\t'])
    entries = []
    lines = [header]
    for k in range(rng.choice([0, 1, 1, 2, 3, 4, 6])):
        name = rng.choice(IDENTS) + rng.choice(['', '', str(k)])
        decl = ''.join(rng.choice(DECL_CHARS) for _ in range(rng.randint(0, 24))) if rng.random() < 0.6 else rng.choice(
            ['fill:red;', 'stroke: blue; fill: none', 'x:"q";\n z:w', 'a:b', '', 'fill: #abc; stroke-width: 3'])
        entries.append((name, decl))
        lines.append(name + rng.choice([' = ', '=', '  =  ', ' =', '= ']) + '{' + decl + '}' + rng.choice(['', '', ' ', '\t ']))
    leg = {'entries': entries}
    text = '\n'.join(lines) + '\n'
    if rng.random() < 0.25:
        bad_name = 'bad' + str(rng.randint(0, 9))
        bad = rng.choice([bad_name + ' {fill:red}', bad_name + ' = fill:red', bad_name + ' = {fill:red', '9' + bad_name + ' = {x}', bad_name + ' = }x{', '= {y}', bad_name + '- = {y}'])
        text += bad + '\n'
        leg['malformed'] = True
        leg['malformed_name'] = bad_name
    text += rng.choice(['', '\n', '\n\n', '  \n'])
    leg['text'] = text
    return leg


def run_shard(ctx, shard):
    rng = rng_for(ctx.seed, ID, shard['name'])
    circles = ctx.extra['circles']
    for i in range(shard['n']):
        case = {'scale': rng.choice([8.0, 8.0, 1.0, 0.5, 20.0])}
        kind = rng.choice(['box', 'rbox', 'circle', 'nested', 'outside', 'legend_only', 'two', 'multi', 'circle_in_box', 'staggered', 'ubox'])
        tags = rng.sample(NAMES, rng.randint(1, 3))
        tag = '{' + ','.join(tags) + '}'
        other = rng.choice(['', 'hi', 'p q', 'label'])
        if kind in ('box', 'rbox'):
            tight = rng.random() < 0.3
            first = (rng.random() < 0.5 or not other) and not (tight and other)
            lead = '' if tight and rng.random() < 0.5 else ' '
            inner = lead + (tag + (' ' + other if other else '') if first else other + ' ' + tag)
            # `tight`: the closing brace of the tag touches the right border (and maybe the opening one the left)
            w = len(inner) if tight and not first or (tight and not other) else len(tag) + (len(other) + 1 if other else 0) + rng.randint(2, 5)
            w = max(w, len(inner))
            h = rng.randint(1, 3)
            row = rng.randrange(h)
            rows = gen.box(w, h, inner={row: inner})
            if kind == 'rbox':
                rows[0] = '.' + rows[0][1:-1] + '.'
                rows[-1] = "'" + rows[-1][1:-1] + "'"
            case.update(body=rows, shapes=[('rect', (0, 0, w + 1, h + 1), tags)], absent=[tag], present=other.split(), kind=kind)
        elif kind == 'multi':
            # two separate tags in one box
            t2 = rng.sample(NAMES, 1)
            inner = ' {' + ','.join(tags) + '} {' + t2[0] + '}'
            w = len(inner) + 2
            rows = gen.box(w, 1, inner={0: inner})
            case.update(body=rows, shapes=[('rect', (0, 0, w + 1, 2), sorted(set(tags) | set(t2)))], absent=['{'], present=[], kind=kind)
        elif kind == 'circle':
            art = [c for c in circles if len(c) >= 5]
            c = list(rng.choice(art))
            mid = len(c) // 2
            rowm = c[mid]
            lead = len(rowm) - len(rowm.lstrip())
            innerw = len(rowm.strip()) - 2
            if rowm.strip()[1:-1].strip() != '' or innerw < len(tag) + 2:
                tags = tags[:1]
                tag = '{' + tags[0] + '}'
                if rowm.strip()[1:-1].strip() != '' or innerw < len(tag) + 2:
                    continue
            pad = rng.randint(1, innerw - len(tag) - 1)
            c[mid] = ' ' * lead + rowm.strip()[0] + ' ' * pad + tag + ' ' * (innerw - pad - len(tag)) + rowm.strip()[-1]
            case.update(body=c, shapes=[('circle', None, tags)], absent=[tag], present=[], kind=kind)
        elif kind == 'circle_in_box':
            # a circle inside a box, each carrying its own tag: the innermost shape gets the tag
            art = [c for c in circles if len(c) >= 5]
            c = list(rng.choice(art))
            mid = len(c) // 2
            rowm = c[mid]
            lead = len(rowm) - len(rowm.lstrip())
            innerw = len(rowm.strip()) - 2
            ctag = '{' + tags[0] + '}'
            if rowm.strip()[1:-1].strip() != '' or innerw < len(ctag) + 2:
                continue
            c[mid] = ' ' * lead + rowm.strip()[0] + ' ' + ctag + ' ' * (innerw - 1 - len(ctag)) + rowm.strip()[-1]
            cwid = max(len(r) for r in c)
            btags = rng.sample([n for n in NAMES if n != tags[0]], 1)
            btag = '{' + btags[0] + '}'
            w = max(cwid + 4, len(btag) + 2)
            # blank rows / columns keep the circle, the box tag and the box border in separate spans
            rows = ['+' + '-' * w + '+', '|' + ' ' * w + '|']
            for r in c:
                rows.append('|  ' + r + ' ' * (w - len(r) - 2) + '|')
            rows.append('|' + ' ' * w + '|')
            rows.append('| ' + btag + ' ' * (w - len(btag) - 1) + '|')
            rows.append('+' + '-' * w + '+')
            case.update(body=rows, shapes=[('rect', (0, 0, w + 1, len(rows) - 1), btags), ('circle', None, [tags[0]])], absent=['{'], present=[], kind=kind, depth=2)
        elif kind == 'nested':
            depth = rng.randint(2, 4)
            levels = [[rng.sample(NAMES, rng.randint(1, 2))] for _ in range(depth)]
            rows, rects = nested(levels, rng)
            case.update(body=rows, shapes=[('rect', (x, y, w, h), sorted(tg)) for (x, y, w, h, tg) in rects], absent=['{'], present=[], kind=kind, depth=depth)
        elif kind == 'two':
            # two boxes side by side, each with its own tag
            t2 = rng.sample(NAMES, 1)
            a = gen.box(len(tag) + 2, 1, inner={0: ' ' + tag})
            b = gen.box(len(t2[0]) + 4, 1, inner={0: ' {' + t2[0] + '}'})
            rows = [x + '  ' + y for x, y in zip(a, b)]
            off = len(a[0]) + 2
            case.update(body=rows, shapes=[('rect', (0, 0, len(tag) + 3, 2), tags), ('rect', (off, 0, len(t2[0]) + 5, 2), t2)], absent=['{'], present=[], kind=kind)
        elif kind == 'ubox':
            # a box whose top and bottom edges are drawn with underscores: the top edge runs along the upper edge of the
            # first interior row; the tag stands on that row or on a lower one
            inner = ' ' * rng.randint(0, 2) + tag
            w = len(inner) + rng.randint(0, 4)
            h = rng.randint(1, 3)
            row = rng.randrange(h)
            rows = [' ' + '_' * w]
            for y in range(h):
                rows.append('|' + ((inner + ' ' * (w - len(inner))) if y == row else ' ' * w) + '|')
            rows.append('|' + '_' * w + '|')
            case.update(body=rows, shapes=[('rect', (0, F(1, 2), w + 1, h + 1), tags)], absent=[tag], present=[], kind=kind)
        elif kind == 'staggered':
            # a box with caption rows glued on top of it (caption and box are one group that starts at the caption)
            # and, to its right, a box that starts higher up: its tag lies above the top border of the first box
            cap = [rng.choice(['abc', 'hi', 'kept', 'large']) for _ in range(rng.randint(2, 3))]
            a = gen.box(len(tag) + 2, rng.randint(1, 2), inner={0: ' ' + tag})
            left = cap + a
            t2 = rng.sample(NAMES, 1)
            btag = '{' + t2[0] + '}'
            hb = rng.randint(len(cap), len(cap) + 3)
            b = gen.box(len(btag) + 2, hb, inner={rng.randrange(0, len(cap) - 1): ' ' + btag})
            wl = max(len(r) for r in left)
            gap = rng.randint(2, 4)
            rows = []
            for y in range(max(len(left), len(b))):
                l = left[y] if y < len(left) else ''
                r = b[y] if y < len(b) else ''
                rows.append((l.ljust(wl + gap) + r).rstrip())
            case.update(body=rows, shapes=[('rect', (0, len(cap), len(tag) + 3, len(a) - 1), tags), ('rect', (wl + gap, 0, len(btag) + 3, hb + 1), t2)],
                        absent=['{'], present=cap, kind=kind)
        elif kind == 'outside':
            rows = gen.box(6, 1) + ['', ' ' + tag]
            case.update(body=rows, shapes=[('rect', (0, 0, 7, 2), [])], absent=[], present=[tag], kind=kind)
        else:
            k2, rows = gen.diagram(rng, circles)
            case.update(body=rows, kind=kind)
        if rng.random() < 0.7 or kind == 'legend_only':
            case['legend'] = make_legend(rng)
        case['crlf'] = rng.random() < 0.25
        ctx.run_case(case)
        if i == 0:
            ctx.sample({'document': gen.text_of(case['body']) + (case['legend']['text'] if case.get('legend') else '')})


def execute(run):
    binary = build_driver()
    info = driver_info(binary)
    extra = {'circles': info['circles']}
    n, k = (2000, 16) if run.tier == 'quick' else (5000, 32)
    run.run_shards(binary, [{'name': 'doc-%d' % i, 'n': n} for i in range(k)], extra=extra)


if __name__ == '__main__':
    sys.exit(main(sys.modules[__name__]))
