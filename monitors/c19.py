"""C19 - the CLI writes what the library computes and reports success truthfully.

Differential oracle against the in-process driver for the mapped settings: stdout == document + newline
byte for byte (stray library prints are caught), -o file == document, exit 0; `build`: one .svg per matching
file == library output with default settings, other files untouched, exit 0; error cases: exit != 0, a
diagnostic on stderr/stdout, no (partial) output file. Thorough: a sample under valgrind memcheck.
"""
import os
import shutil
import struct
import subprocess
import sys
import tempfile
import threading

import gen
from vlib import WORK, Malformed, build_driver, build_repo_bins, driver_info, key_of, main, rng_for, xml_tree

ID = 'C19'
LEVEL = 'exploration'
RULE = ('random subsets of the 9 options with random values x documents of the mixed corpus x {file argument, stdin, inline -s '
        'with \\n escapes} x {stdout, -o}; build with random directories of .bob and other files; error cases (missing file, '
        'unparsable number, unwritable output, non-UTF-8 input, missing directory); non-trivial = every distinct invocation')
ASSUMPTIONS = ['the binary is built from the tree without LTO (the workspace profile costs 85 s per rebuild and changes nothing observable here)',
               'a panic message on stderr counts as a diagnostic']
FLOORS = {'quick': {'conversions': 1000, 'mode_file': 200, 'mode_stdin': 200, 'mode_inline': 200, 'builds': 50, 'error_cases': 100},
          'thorough': {'conversions': 12000, 'mode_file': 3000, 'mode_stdin': 3000, 'mode_inline': 3000, 'builds': 500, 'error_cases': 1000}}


def f32(x):
    return struct.unpack('<f', struct.pack('<f', x))[0]


def check_case(ctx, case):
    cli = ctx.extra['cli']
    tmp = ctx.extra['tmp']()
    k = case['kind']
    try:
        if k == 'convert':
            return convert_case(ctx, cli, tmp, case)
        if k == 'build':
            return build_case(ctx, cli, tmp, case)
        return error_case(ctx, cli, tmp, case)
    finally:
        shutil.rmtree(tmp, ignore_errors=True)


def convert_case(ctx, cli, tmp, case):
    s = case['doc']
    args = list(case['args'])
    mode = case['mode']
    st = dict(case['settings'])
    inp = None
    tail = []
    exp_in = s
    via = case.get('via', 'plain')
    feeder = None
    stdin_file = None
    if mode == 'file':
        p = os.path.join(tmp, 'in.bob')
        if via == 'fifo':
            # the file argument is a named pipe (what `svgbob <(gen)` hands to the tool): it has no size
            os.mkfifo(p)
            feeder = threading.Thread(target=feed_fifo, args=(p, s.encode('utf-8')), daemon=True)
            feeder.start()
        else:
            open(p, 'w', encoding='utf-8', newline='').write(s)
        tail = [p]
        if via == 'symlink':
            q = os.path.join(tmp, 'dir with blank', 'ln k.bob')
            os.makedirs(os.path.dirname(q))
            os.symlink(p, q)
            tail = [q]
        elif via == 'devstdin':
            tail = ['/dev/stdin']
            inp = s.encode('utf-8')
        elif via == 'relative':
            tail = ['./in.bob']
    elif mode == 'inline':
        lit = s.replace('\n', '\\n')
        exp_in = lit.replace('\\n', '\n')
        tail = ['-s', '--', lit]
    else:
        inp = s.encode('utf-8')
    outp = None
    if case['to_file']:
        outp = os.path.join(tmp, 'out.svg')
        args += ['-o', outp]
    if mode == 'stdin' and via == 'regular':
        # standard input redirected from a regular file instead of a pipe
        q = os.path.join(tmp, 'stdin.bob')
        open(q, 'wb').write(inp)
        stdin_file = open(q, 'rb')
        inp = None
    try:
        if mode == 'stdin' and via == 'chunked':
            r = run_chunked([cli] + args + tail, inp, tmp)
        else:
            r = subprocess.run([cli] + args + tail, input=inp, stdin=stdin_file, capture_output=True, timeout=120, cwd=tmp)
    finally:
        if stdin_file:
            stdin_file.close()
        if feeder:
            unblock_fifo(tail[0])
            feeder.join(10)
    ctx.tag('via_%s_%s' % (mode, via))
    if 'scale' in st:
        st['scale'] = f32(8.0 * f32(st['scale']))
    want = ctx.conv(exp_in, entry=3, flags=7, **st)
    ctx.note(key_of(args, tail, s), True, 'conversions', 'mode_' + mode, 'to_file' if outp else 'to_stdout')
    if not want.ok:
        if r.returncode == 0:
            return 'the library fails (%s) but the tool exits with 0' % want.fail_text()
        return None
    wb = want.out.encode('utf-8')
    if r.returncode != 0:
        return 'exit status %d for a conversion that succeeds: %s' % (r.returncode, r.stderr[-300:])
    if outp:
        if not os.path.exists(outp):
            return '-o file was not written'
        got = open(outp, 'rb').read()
        if got != wb:
            return 'the -o file differs from the library document (%d vs %d bytes)%s' % (len(got), len(wb), diff_at(got, wb))
        if r.stdout != b'':
            return 'stdout is not empty with -o: %r' % r.stdout[:100]
    elif r.stdout != wb + b'\n':
        return 'stdout differs from the library document + newline (%d vs %d bytes)%s' % (len(r.stdout), len(wb) + 1, diff_at(r.stdout, wb + b'\n'))
    return None


def feed_fifo(path, data):
    try:
        with open(path, 'wb') as f:
            for i in range(0, len(data), 4093):
                f.write(data[i:i + 4093])
                f.flush()
    except OSError:
        pass


def unblock_fifo(path):
    # a tool that never opened the pipe would leave the feeder blocked in open(): open the read end once
    try:
        fd = os.open(path, os.O_RDONLY | os.O_NONBLOCK)
        os.close(fd)
    except OSError:
        pass


class Done:
    pass


def run_chunked(cmd, data, tmp):
    """standard input arrives in small pieces that cut multi-byte characters in two (a slow producer)"""
    pr = subprocess.Popen(cmd, stdin=subprocess.PIPE, stdout=subprocess.PIPE, stderr=subprocess.PIPE, cwd=tmp)
    out = []
    err = []
    t1 = threading.Thread(target=lambda: out.append(pr.stdout.read()), daemon=True)
    t2 = threading.Thread(target=lambda: err.append(pr.stderr.read()), daemon=True)
    t1.start()
    t2.start()
    try:
        step = 7 if len(data) < 4000 else 4099
        for i in range(0, len(data), step):
            pr.stdin.write(data[i:i + step])
            pr.stdin.flush()
        pr.stdin.close()
    except OSError:
        pass
    pr.wait(120)
    t1.join(30)
    t2.join(30)
    r = Done()
    r.returncode = pr.returncode
    r.stdout = out[0] if out else b''
    r.stderr = err[0] if err else b''
    return r


def diff_at(a, b):
    for i in range(min(len(a), len(b))):
        if a[i] != b[i]:
            return ': first difference at byte %d: %r vs %r' % (i, a[max(0, i - 20):i + 30], b[max(0, i - 20):i + 30])
    return ''


def build_case(ctx, cli, tmp, case):
    src = os.path.join(tmp, 'src')
    os.makedirs(src)
    files = case['files']
    for k, (name, content) in enumerate(files):
        if case.get('links') and k % 2 == 0:
            # the source is a symbolic link to a regular file kept elsewhere
            real = os.path.join(tmp, 'shared')
            os.makedirs(real, exist_ok=True)
            open(os.path.join(real, 'f%d' % k), 'w', encoding='utf-8', newline='').write(content)
            os.symlink(os.path.join(real, 'f%d' % k), os.path.join(src, name))
        else:
            open(os.path.join(src, name), 'w', encoding='utf-8', newline='').write(content)
    ext = case['ext']
    out = os.path.join(tmp, case['outdir']) if case['outdir'] else None
    args = ['build', '-i', os.path.join(src, '*.' + ext)]
    if out:
        args += ['-o', out]
    outdir0 = out or src
    if case.get('stale'):
        # targets that exist already (written after the sources, so they are newer): a build must replace them
        os.makedirs(outdir0, exist_ok=True)
        for n, c in files:
            if '.' in n and n.rsplit('.', 1)[-1] == ext and hash(n) % 2 == case['stale'] % 2:
                open(os.path.join(outdir0, n.rsplit('.', 1)[0] + '.svg'), 'w').write('<svg>left over from an earlier run</svg>\n')
    if case.get('twice'):
        # an earlier build of other documents with the same names into the same output directory
        src0 = os.path.join(tmp, 'src0')
        os.makedirs(src0)
        for name, content in files:
            open(os.path.join(src0, name), 'w', encoding='utf-8', newline='').write('+--+\n|zz|\n+--+\n' + content)
        subprocess.run([cli, 'build', '-i', os.path.join(src0, '*.' + ext)] + (['-o', out] if out else ['-o', src]), capture_output=True, timeout=300, cwd=tmp)
    r = subprocess.run([cli] + args, capture_output=True, timeout=300, cwd=tmp)
    ctx.note(key_of('build', files, ext, case['outdir']), True, 'builds')
    outdir = out or src
    matching = [(n, c) for n, c in files if n.rsplit('.', 1)[-1] == ext and '.' in n]
    if r.returncode != 0:
        return 'build of %d convertible files exits with %d: %s' % (len(matching), r.returncode, (r.stdout + r.stderr)[-300:])
    for n, c in matching:
        stem = n.rsplit('.', 1)[0]
        p = os.path.join(outdir, stem + '.svg')
        if not os.path.exists(p):
            return 'build did not write %s.svg' % stem
        want = ctx.conv(c, entry=3, flags=7)
        if open(p, 'rb').read() != want.out.encode('utf-8'):
            return 'build wrote %s.svg which differs from the library document' % stem
    expected = set(n.rsplit('.', 1)[0] + '.svg' for n, c in matching)
    have = set(f for f in os.listdir(outdir) if f.endswith('.svg'))
    originals = set(n for n, c in files if n.endswith('.svg'))
    if have - expected - originals:
        return 'build wrote unexpected files %r' % sorted(have - expected - originals)
    for n, c in files:
        if open(os.path.join(src, n), encoding='utf-8', newline='').read() != c and not (n in expected and outdir == src):
            return 'build modified the input file %s' % n
    return None


def error_case(ctx, cli, tmp, case):
    what = case['what']
    outp = os.path.join(tmp, 'out.svg')
    good = os.path.join(tmp, 'good.bob')
    open(good, 'w').write('+--+\n|  |\n+--+\n')
    if what == 'missing_file':
        args = [os.path.join(tmp, 'nope.bob'), '-o', outp]
    elif what == 'bad_number':
        args = ['--' + case['opt'], case['value'], good, '-o', outp]
    elif what == 'unwritable':
        outp = os.path.join(tmp, 'no', 'such', 'dir', 'out.svg')
        args = [good, '-o', outp]
    elif what == 'output_is_dir':
        os.makedirs(outp)
        args = [good, '-o', outp]
    elif what == 'non_utf8':
        open(os.path.join(tmp, 'bin.bob'), 'wb').write(b'+--+\n|\xff\xfe|\n+--+\n' + bytes(case.get('extra', [])))
        args = [os.path.join(tmp, 'bin.bob'), '-o', outp]
    elif what == 'non_utf8_stdin':
        args = ['-o', outp]
    elif what == 'stdout_full':
        # the document goes to standard output, which accepts the open but fails every write
        doc = '+--+\n|ab|\n+--+\n' if case.get('small', True) else big_document(rng_for(1, ID, 'stdout_full'))
        open(good, 'w').write(doc)
        mode = case.get('mode', 'file')
        args = [good] if mode == 'file' else ([] if mode == 'stdin' else ['-s', doc.replace('\n', '\\n')])
        with open('/dev/full', 'wb') as full:
            r = subprocess.run([cli] + args, input=doc.encode() if mode == 'stdin' else None, stdout=full, stderr=subprocess.PIPE, timeout=120)
        ctx.note(key_of('error', what, case.get('small'), mode), True, 'error_cases', 'error_' + what)
        if r.returncode == 0:
            return 'stdout_full (%s document, %s): exit status 0 although nothing could be written to standard output' % ('small' if case.get('small', True) else 'big', mode)
        if r.returncode < 0:
            return 'stdout_full: killed by signal %d' % -r.returncode
        if not r.stderr.strip():
            return 'stdout_full: no diagnostic'
        return None
    elif what == 'build_target_is_dir':
        os.makedirs(os.path.join(tmp, 'b'))
        open(os.path.join(tmp, 'b', 'c.bob'), 'w').write('+-+\n')
        os.makedirs(os.path.join(tmp, 'b', 'c.svg'))
        outp = os.path.join(tmp, 'never')
        args = ['build', '-i', os.path.join(tmp, 'b', '*.bob')]
    elif what == 'build_missing_dir':
        args = ['build', '-i', os.path.join(tmp, 'nodir', '*.bob'), '-o', os.path.join(tmp, 'o')]
    elif what == 'unknown_option':
        args = ['--no-such-option', good]
    else:
        raise ValueError(what)
    inp = b'\xff\xfe+' if what == 'non_utf8_stdin' else None
    r = subprocess.run([cli] + args, input=inp, capture_output=True, timeout=120)
    ctx.note(key_of('error', what, case.get('opt'), case.get('value')), True, 'error_cases', 'error_' + what)
    if r.returncode == 0 and what in ('non_utf8', 'non_utf8_stdin'):
        # not one of the failures the property lists: a tool that decodes such input some way and converts the
        # result has succeeded; then there has to be a document
        ctx.tag('non_utf8_input_accepted_by_the_tool')
        try:
            root = xml_tree(open(outp, encoding='utf-8').read())
        except (OSError, UnicodeDecodeError, Malformed) as e:
            return '%s: exit status 0 but the output file is not a document (%s)' % (what, e)
        return None if root.name == 'svg' else '%s: exit status 0, the output root is <%s>' % (what, root.name)
    if r.returncode == 0:
        return '%s: exit status 0 although the conversion failed' % what
    if r.returncode < 0:
        return '%s: killed by signal %d' % (what, -r.returncode)
    if not (r.stderr.strip() or r.stdout.strip()):
        return '%s: no diagnostic' % what
    if what != 'output_is_dir' and os.path.exists(outp):
        return '%s: an output file was left behind (%d bytes)' % (what, os.path.getsize(outp))
    return None


COLORS = ['red', '#fff', 'rgb(1, 2, 3)', 'blue', '#123456', 'green', 'white', '"', "'", '<x>', 'a&b', 'url(#p) "q"']
FONTS = ['Arial', 'Foo Bar, serif', 'monospace', '"', "serif, '", '"Courier New", monospace', '</style>']


def big_document(rng):
    """10 kB .. 70 kB, most of it multi-byte characters (read buffers of 4, 8, 64 kB are crossed inside characters)"""
    target = rng.choice([9000, 17000, 33000, 70000])
    rows = []
    size = 0
    while size < target:
        w = rng.randint(3, 30)
        lab = ''.join(rng.choice('é日ж字ü ') for _ in range(w - 2))
        block = ['┌' + '─' * w + '┐  ' + '═' * rng.randint(0, 9), '│ ' + lab + ' │', '└' + '─' * w + '┘', '']
        rows += block
        size += sum(len(r.encode()) + 1 for r in block)
    return gen.text_of(rows)


def boundary_document(rng):
    """a page in which, at every power-of-two offset from 4 kB to 128 kB, a multi-byte character or the CR LF pair
    straddles the offset (what a reader that works in blocks cuts in two)"""
    crlf = rng.random() < 0.5
    nl = '\r\n' if crlf else '\n'
    top = rng.choice([8192, 16384, 65536, 65536, 131072])
    out = []
    size = 0
    for B in [4096, 8192, 16384, 32768, 65536, 131072]:
        if B > top:
            break
        while size < B - 400:
            w = rng.randint(3, 30)
            lab = ''.join(rng.choice('é日ж字ü ab') for _ in range(w - 2))
            for line in ['+' + '-' * w + '+  ' + '=' * rng.randint(0, 9), '| ' + lab + ' |', '+' + '-' * w + '+', '']:
                out.append(line)
                size += len(line.encode()) + len(nl)
        item = rng.choice(['é', '日', '\U0001f600', 'ж', 'crlf' if crlf else '字'])
        if item == 'crlf':
            k = B - 1 - size - 2
            line = ' ' * k + 'ab'
        else:
            k = B - rng.randint(1, len(item.encode()) - 1) - size
            line = ' ' * k + item + ' ok'
        out.append(line)
        size += len(line.encode()) + len(nl)
    out += ['+--+', '|zz|', '+--+']
    return nl.join(out) + nl


def gen_convert(rng, circles):
    kind, rows = gen.diagram(rng, circles, allow_quotes=True, allow_braces=True, small=True)
    s = gen.text_of(rows)
    big = rng.random() < 0.06
    if big:
        s = big_document(rng) if rng.random() < 0.5 else boundary_document(rng)
    elif rng.random() < 0.08:
        # CR LF line ends, now and then a CR on its own (the tool passes the text on as it is)
        s = s.replace('\n', '\r\n')
        if rng.random() < 0.3 and len(s) > 4:
            k = rng.randrange(len(s))
            s = s[:k] + '\r' + s[k:]
    if rng.random() < 0.15:
        s += '# Legend:\na = {fill:red}\n'
    st = {}
    args = []
    if rng.random() < .5:
        v = rng.choice(COLORS)
        args += ['--background', v]
        st['bg'] = v
    if rng.random() < .5:
        v = rng.choice(COLORS)
        args += ['--fill-color', v]
        st['fill'] = v
    if rng.random() < .5:
        v = rng.choice(FONTS)
        args += ['--font-family', v]
        st['ff'] = v
    if rng.random() < .5:
        v = rng.choice([8, 14, 33, 0, 100])
        args += ['--font-size', str(v)]
        st['fs'] = v
    if rng.random() < .5:
        v = rng.choice(['1', '2.5', '0.25', '3', '1e1'])
        args += ['--stroke-width', v]
        st['sw'] = float(v)
    if rng.random() < .5:
        v = rng.choice(COLORS)
        args += ['--stroke-color', v]
        st['sc'] = v
    if rng.random() < .5:
        v = rng.choice(['0.5', '1', '2', '3.25', '1.1', '0.1', '12'])
        args += ['--scale', v]
        st['scale'] = float(v)
    rng.shuffle(args) if False else None
    mode = rng.choice(['file', 'stdin', 'inline'])
    if mode == 'inline' and ('\x00' in s or big):
        mode = rng.choice(['file', 'stdin'])
    if rng.random() < 0.2:
        # --option=value spelling
        joined = []
        i = 0
        while i < len(args):
            joined.append(args[i] + '=' + args[i + 1])
            i += 2
        args = joined
    via = 'plain'
    if mode == 'file' and rng.random() < 0.3:
        via = rng.choice(['fifo', 'symlink', 'devstdin', 'relative'])
    if mode == 'stdin' and rng.random() < 0.3:
        via = rng.choice(['regular', 'chunked'])
    return {'kind': 'convert', 'doc': s, 'args': args, 'settings': st, 'mode': mode, 'via': via, 'to_file': rng.random() < 0.4}


def gen_build(rng, circles):
    files = []
    names = set()
    for i in range(rng.randint(0, 6)):
        stem = rng.choice(['a', 'b', 'diagram', 'x y', 'z.v2', 'Ünï', 'k%d' % i])
        ext = rng.choice(['bob', 'bob', 'bob', 'txt', 'md', 'bobx', 'BOB'])
        name = stem + '.' + ext
        if name in names or (stem + '.svg') in names:
            continue
        names.add(name)
        kind, rows = gen.diagram(rng, circles, small=True)
        files.append((name, gen.text_of(rows) if rng.random() > 0.04 else big_document(rng)))
    if rng.random() < 0.3:
        files.append(('README', 'no extension\n'))
    if rng.random() < 0.2 and 'old.svg' not in names:
        files.append(('old.svg', '<svg/>\n'))
    return {'kind': 'build', 'files': files, 'ext': rng.choice(['bob', 'bob', 'bob', 'txt']), 'outdir': rng.choice(['', 'out', 'deep/er/out']),
            'stale': rng.choice([0, 0, 1, 2]), 'twice': rng.random() < 0.25, 'links': rng.random() < 0.3}


def gen_error(rng):
    what = rng.choice(['missing_file', 'bad_number', 'unwritable', 'output_is_dir', 'non_utf8', 'non_utf8_stdin', 'build_missing_dir', 'build_target_is_dir', 'unknown_option', 'stdout_full'])
    case = {'kind': 'error', 'what': what}
    if what == 'stdout_full':
        case['small'] = rng.random() < 0.6
        case['mode'] = rng.choice(['file', 'stdin', 'inline']) if case['small'] else rng.choice(['file', 'stdin'])
    if what == 'bad_number':
        case['opt'] = rng.choice(['font-size', 'stroke-width', 'scale'])
        case['value'] = rng.choice(['abc', '', '1.5x', '--', '0x10', '1,5'] + (['-3', '2.5'] if case['opt'] == 'font-size' else []))
    if what == 'non_utf8':
        case['extra'] = [rng.randrange(128, 256) for _ in range(rng.randint(0, 5))]
    return case


def run_shard(ctx, shard):
    rng = rng_for(ctx.seed, ID, shard['name'])
    circles = ctx.extra['circles']
    base = os.path.join(WORK, 'c19-%d' % os.getpid())
    os.makedirs(base, exist_ok=True)
    ctx.extra['tmp'] = lambda: tempfile.mkdtemp(dir=base)
    try:
        for i in range(shard['n']):
            q = rng.random()
            case = gen_convert(rng, circles) if q < 0.8 else (gen_build(rng, circles) if q < 0.88 else gen_error(rng))
            ctx.run_case(case)
            if i < 2:
                ctx.sample({k: v for k, v in case.items() if k != 'files'})
    finally:
        shutil.rmtree(base, ignore_errors=True)


def valgrind_leg(run, cli, circles):
    rng = rng_for(run.seed, ID, 'valgrind')
    base = tempfile.mkdtemp(dir=WORK, prefix='c19-vg-')
    reports = 0
    runs = 0
    try:
        good = os.path.join(base, 'g.bob')
        docs = [gen.text_of(gen.diagram(rng, circles, allow_quotes=True, allow_braces=True, small=True)[1]) for _ in range(8)]
        cmds = []
        for i, d in enumerate(docs):
            p = os.path.join(base, 'd%d.bob' % i)
            open(p, 'w', encoding='utf-8').write(d)
            cmds.append([p, '--scale', '2', '--font-size', '10'])
        cmds += [[os.path.join(base, 'missing.bob')], ['--scale', 'abc', cmds[0][0]], ['build', '-i', os.path.join(base, '*.bob'), '-o', os.path.join(base, 'out')],
                 ['-s', '--', '+-+\\n| |\\n+-+']]
        for c in cmds:
            log = os.path.join(base, 'vg.log')
            r = subprocess.run(['valgrind', '--error-exitcode=97', '--leak-check=no', '--log-file=' + log, '-q', cli] + c, capture_output=True, timeout=900)
            runs += 1
            txt = open(log, errors='replace').read() if os.path.exists(log) else ''
            if r.returncode == 97 or 'Invalid' in txt or 'uninitialised' in txt:
                reports += 1
                run.violations.append({'case': {'valgrind': c}, 'message': 'valgrind memcheck reports an error in the CLI: ' + txt[-1200:], 'signature': None})
                run.nviol += 1
    finally:
        shutil.rmtree(base, ignore_errors=True)
    run.extra_cov['valgrind'] = {'invocations': runs, 'reports': reports}


def execute(run):
    binary = build_driver()
    cli, server = build_repo_bins()
    info = driver_info(binary)
    n, k = (110, 16) if run.tier == 'quick' else (1300, 16)
    run.run_shards(binary, [{'name': 'cli-%d' % i, 'n': n} for i in range(k)], extra={'cli': cli, 'circles': info['circles']})
    if run.tier != 'quick':
        valgrind_leg(run, cli, info['circles'])


def replay_extra(binary):
    cli, server = build_repo_bins()
    base = os.path.join(WORK, 'c19-replay')
    os.makedirs(base, exist_ok=True)
    return {'cli': cli, 'tmp': lambda: tempfile.mkdtemp(dir=base), 'circles': []}


if __name__ == '__main__':
    sys.exit(main(sys.modules[__name__]))
