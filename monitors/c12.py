"""C12 - the canvas has one cell of margin and contains everything that is drawn.

Oracle: closed form of the canvas over the ordinary (non-quoted, non-legend) cells of the input, and the
bounding box of every emitted element (lines, rects, circles c+-r, polygons, arcs via centre/sweep extrema,
text = its display columns x one row) must lie inside [0,W]x[0,H].
Known finding (classifier `quoted-text-outside-canvas`): quoted strings are not part of the canvas computation.
"""
import sys

import gen
from vlib import F, Malformed, Scene, arc_bbox, build_driver, driver_info, cw, key_of, main, rng_for, show_el

ID = 'C12'
LEVEL = 'exploration'
RULE = ('random grids incl. double-width characters at the right edge, glyphs whose strokes leave their cell at the borders, '
        'catalogue circles and arcs at offset 0, quoted text at the right / bottom edge and alone, legends, blank documents, the '
        'scales of C11; non-trivial = distinct (document, scale) with at least one ordinary cell')
ASSUMPTIONS = ['a text element occupies its display columns x one row (the anchor sub-cell point is not the glyph bounding box)',
               'a cell is the first column of a character, as the mechanism defines it']
FLOORS = {'quick': {'distinct_nontrivial': 3000, 'with_quoted': 300, 'with_circle_or_arc': 300, 'blank_documents': 10},
          'thorough': {'distinct_nontrivial': 60000, 'with_quoted': 6000, 'with_circle_or_arc': 6000, 'blank_documents': 100}}
SCALES = [0.5, 1.0, 3.0, 8.0, 8.0, 8.0, 10.0, 20.0, 37.5]
EDGE = "_/\\.,'`()<>^vV*oO#+-|=~:!" + "╱╲╳┼├┤┬┴╭╮╯╰◜◝◞◟▲▼◀▶日字\u1100\u26a1"
EPS = 1e-4


def bbox(e, s):
    t = e[0]
    if t == 'line':
        return (min(e[2], e[4]), min(e[3], e[5]), max(e[2], e[4]), max(e[3], e[5]))
    if t == 'rect':
        return (e[2], e[3], e[2] + e[4], e[3] + e[5])
    if t == 'circle':
        return (e[2] - e[4], e[3] - e[4], e[2] + e[4], e[3] + e[4])
    if t == 'text':
        cx = (e[2] - s / 4) / s
        cy = (e[3] - s * F(3, 2)) / (2 * s)
        n = sum(cw(c) for c in e[4])
        return (cx * s, cy * 2 * s, (cx + n) * s, (cy + 1) * 2 * s)
    if t == 'polygon':
        xs = [p[0] for p in e[2]]
        ys = [p[1] for p in e[2]]
        return (min(xs), min(ys), max(xs), max(ys))
    if t == 'path':
        return arc_bbox(e[2], e[3], e[4], e[7], e[8], e[9], e[10])
    raise ValueError(t)


def body_of(doc):
    i = doc.find('# Legend:')
    return doc if i < 0 else doc[:i]


def check_case(ctx, case):
    doc = case['input']
    sc_ = case.get('scale', 8.0)
    s = F(repr(sc_))
    r = ctx.conv(doc, scale=sc_, flags=case.get('flags', 0))
    if not r.ok:
        return 'conversion failed: ' + r.fail_text()
    try:
        sc = Scene(r.out)
    except Malformed as e:
        return 'output not parseable: %s' % e
    rows = body_of(doc).split('\n')
    cells = gen.ordinary_cells(rows)
    lastcol = max([c[0] for c in cells] + [0])
    lastrow = max([c[1] for c in cells] + [0])
    quoted = set()
    for y, row in enumerate(rows):
        cols = gen.columns(row.rstrip('\r'))
        for a, b in gen.quoted_segments(cols):
            quoted.add((a, y, ''.join(c for c in cols[a + 1:b] if c != '\0')))
    tags = []
    if quoted:
        tags.append('with_quoted')
    kinds = gen.kinds_in(sc)
    if kinds & {'circle', 'path', 'g_path'}:
        tags.append('with_circle_or_arc')
    if not cells:
        tags.append('blank_documents')
    ctx.note(key_of(doc, sc_), bool(cells), *tags)
    W, H = s * (lastcol + 2), 2 * s * (lastrow + 2)
    if abs(sc.W - W) > F(1, 1000) * s or abs(sc.H - H) > F(1, 1000) * s:
        return 'canvas is %sx%s, one cell of margin around the last occupied cell (%d,%d) is %sx%s' % (sc.W, sc.H, lastcol, lastrow, W, H)
    known = None
    for e, ing in sc.flat():
        b = bbox(e, s)
        if float(b[0]) < -EPS or float(b[1]) < -EPS or float(b[2]) > float(sc.W) + EPS or float(b[3]) > float(sc.H) + EPS:
            if e[0] == 'text':
                cx = (e[2] - s / 4) / s
                cy = (e[3] - s * F(3, 2)) / (2 * s)
                if (cx, cy, e[4]) in quoted:
                    known = ('quoted text %r at cell (%s,%s) lies outside the %sx%s canvas (bbox %s)' % (
                        e[4], cx, cy, sc.W, sc.H, tuple(round(float(v), 2) for v in b)), 'quoted-text-outside-canvas')
                    continue
            return '%s lies outside the %sx%s canvas (bbox %s)' % (show_el(e), sc.W, sc.H, tuple(round(float(v), 2) for v in b))
    return known


def run_shard(ctx, shard):
    rng = rng_for(ctx.seed, ID, shard['name'])
    circles = ctx.extra['circles']
    if shard.get('bundled'):
        for name, rows in gen.bundled_whole(with_legend=True):
            for sc_ in (8.0, 1.0, 37.5):
                ctx.run_case({'input': '\n'.join(rows) + '\n', 'scale': sc_, 'flags': 0})
            ctx.tag('bundled_documents')
        return
    for i in range(shard['n']):
        q = rng.random()
        if q < 0.35:
            rows = gen.random_grid(rng, gen.FULL + '日', wmax=14, hmax=7)
        elif q < 0.55:
            # glyphs whose strokes reach out of their cell, placed at the borders (row 0, column 0, last column)
            w = rng.randint(1, 8)
            h = rng.randint(1, 5)
            rows = [''.join(rng.choice(EDGE) if rng.random() < 0.7 else ' ' for _ in range(w)) for _ in range(h)]
        elif q < 0.7:
            rows = list(rng.choice(circles))
            if rng.random() < 0.5:
                # a part of a circle: arcs
                k = rng.randint(1, len(rows))
                rows = rows[:k] if rng.random() < 0.5 else rows[-k:]
                if rng.random() < 0.5:
                    m = max(len(r) for r in rows)
                    cut = rng.randint(1, m)
                    rows = [r[:cut] for r in rows] if rng.random() < 0.5 else [r[cut:] for r in rows]
        elif q < 0.78:
            # zero-width characters (combining marks, variation selector, ZWJ, ZWSP) occupy a column of their own
            w = rng.randint(2, 12)
            h = rng.randint(1, 3)
            zw = '\u0301\u200b\ufe0f\u200d\u0300'
            rows = [''.join(rng.choice(zw) if rng.random() < 0.25 else rng.choice('ae-|>+* ') for _ in range(w)) for _ in range(h)]
            ctx.tag('with_zero_width')
        elif q < 0.85:
            kind, rows = gen.diagram(rng, circles, allow_quotes=True, allow_braces=True)
        elif q < 0.9:
            rows = rng.choice([[''], [' '], ['', '', ''], ['   ', ' '], ['\t'], []])
        else:
            # quoted text at the right / bottom edge or alone
            rows = rng.choice([['"hello"'], ['+-+ "abc def"', '+-+'], ['|', '| "x"'], ['  "q"', '-'], ['"日本語"'], ['a "<&>" b']])
        doc = '\n'.join(rows) + ('\n' if rows else '')
        if rng.random() < 0.2:
            doc += '# Legend:\na = {fill:red}\nlonglonglonglonglonglonglonglonglonglonglonglonglonglonglonglong = {stroke: blue}\n'
        case = {'input': doc, 'scale': rng.choice(SCALES), 'flags': rng.choice([0, 7])}
        ctx.run_case(case)
        if i == 0:
            ctx.sample(case)


def classify(case, msg):
    return None


def execute(run):
    binary = build_driver()
    info = driver_info(binary)
    extra = {'circles': info['circles']}
    n, k = (2500, 16) if run.tier == 'quick' else (9000, 32)
    run.run_shards(binary, [{'name': 'bundled', 'n': 0, 'bundled': True}] + [{'name': 'canvas-%d' % i, 'n': n} for i in range(k)], extra=extra)


if __name__ == '__main__':
    sys.exit(main(sys.modules[__name__]))
