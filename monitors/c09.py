"""C09 - straight runs become one line: no two output lines are collinear and touching.

Oracle: (1) a straight run of line characters must come out as exactly one line element (two for the double
line) with the closed-form end points and solid/dashed class; (2) pair invariant over any output: no two
plain line elements are collinear with intersecting parameter intervals (exact rational cross products).
"""
import sys

import gen
from vlib import F, Malformed, Scene, build_driver, driver_info, key_of, main, rng_for, show_el

ID = 'C09'
LEVEL = 'exploration'
RULE = ('runs of length 1..400 of - ~ _ = | : ! / \\ and box drawing equivalents at 3 offsets, mixed solid/dashed runs, and the '
        'pair invariant on random grids over the full alphabet / the mixed corpus; non-trivial = distinct run, or distinct random '
        'document whose output has at least 2 plain lines')
ASSUMPTIONS = ['a lone : or ! is punctuation by design, those runs start at length 2',
               'only plain lines (class exactly solid or broken, no marker class) are subject to the pair invariant']
FLOORS = {'quick': {'runs': 1000, 'outputs_with_2_lines': 5000},
          'thorough': {'runs': 10000, 'outputs_with_2_lines': 100000}}

RUNS = [('-', 'h', 'solid'), ('~', 'h', 'broken'), ('_', 'u', 'solid'), ('=', 'd', 'solid'), ('─', 'h', 'solid'), ('┄', 'h', 'broken'), ('═', 'd', 'solid'),
        ('|', 'v', 'solid'), (':', 'v', 'broken'), ('!', 'v', 'broken'), ('│', 'v', 'solid'), ('┊', 'v', 'broken'),
        ('/', '/', 'solid'), ('\\', '\\', 'solid'), ('╱', '/', 'solid'), ('╲', '\\', 'solid')]
OFFSETS = [(0, 0), (3, 2), (17, 9)]


def run_rows(ch, n, kind, ox, oy):
    if kind in ('h', 'u', 'd'):
        rows = [' ' * ox + ch * n]
    elif kind == 'v':
        rows = [' ' * ox + ch for _ in range(n)]
    else:
        rows = gen.diag(ch, n, kind, ox)
    return [''] * oy + rows


def seg(e):
    a, b = (e[2], e[3]), (e[4], e[5])
    return (a, b) if a <= b else (b, a)


def pair_violation(lines):
    def cross(p, q, r):
        return (q[0] - p[0]) * (r[1] - p[1]) - (q[1] - p[1]) * (r[0] - p[0])
    L = [seg(e) for e in lines]
    for i in range(len(L)):
        a, b = L[i]
        if a == b:
            continue
        for j in range(i + 1, len(L)):
            c, d = L[j]
            if c == d:
                continue
            if cross(a, b, c) == 0 and cross(a, b, d) == 0:
                k = 0 if a[0] != b[0] else 1
                s1, e1 = sorted((a[k], b[k]))
                s2, e2 = sorted((c[k], d[k]))
                if max(s1, s2) <= min(e1, e2):
                    return lines[i], lines[j]
    return None


def plain_lines(sc):
    return [e for e, ing in sc.flat() if e[0] == 'line' and e[1] in (('solid',), ('broken',))]


def check_case(ctx, case):
    rows = case['rows']
    r = ctx.conv(gen.text_of(rows))
    if not r.ok:
        return 'conversion failed: ' + r.fail_text()
    try:
        sc = Scene(r.out)
    except Malformed as e:
        return 'output not parseable: %s' % e
    lines = plain_lines(sc)
    if case['kind'] == 'run':
        ch, n, kind, cls, ox, oy = case['ch'], case['n'], case['rk'], case['cls'], case['ox'], case['oy']
        ctx.note(key_of(rows), True, 'runs', 'run_' + kind)
        flat = sc.flat()
        x0, x1 = F(ox * 8), F((ox + n) * 8)
        y0, y1 = F(oy * 16), F((oy + n) * 16)
        if kind == 'h':
            want = [((x0, y0 + 8), (x1, y0 + 8))]
        elif kind == 'u':
            want = [((x0, y0 + 16), (x1, y0 + 16))]
        elif kind == 'v':
            want = [((x0 + 4, y0), (x0 + 4, y1))]
        elif kind == '/':
            want = [((F(ox * 8), y1), (x1, y0))]
        elif kind == '\\':
            want = [((x0, y0), (x1, y1))]
        else:
            want = None
        got = sorted(seg(e) for e in lines)
        if len(flat) != len(lines) or any(e[1] != (cls,) for e in lines):
            return 'run of %d %r: expected only %s line(s), got %s' % (n, ch, cls, [show_el(e) for e, _ in flat[:4]])
        if want is not None:
            want = sorted((a, b) if a <= b else (b, a) for a, b in want)
            if got != want:
                return 'run of %d %r is not one line spanning the run: got %s' % (n, ch, [show_el(e) for e in lines[:4]])
        else:
            # the double line: two parallel horizontal lines over the whole run, at different heights of the row
            if len(got) != 2 or any(a[1] != b[1] or (a[0], b[0]) != (x0, x1) for a, b in got) or got[0][0][1] == got[1][0][1] \
                    or not all(y0 < a[1] < y0 + 16 for a, b in got):
                return 'run of %d %r is not two parallel lines spanning the run: got %s' % (n, ch, [show_el(e) for e in lines[:4]])
        return None
    if case['kind'] == 'mixed':
        # a run mixing solid and dashed characters of one direction: one line, dashed if any part is dashed
        ctx.note(key_of(rows), True, 'mixed_runs')
        flat = sc.flat()
        n = case['n']
        if case['rk'] == 'h':
            want = ((F(0), F(8)), (F(n * 8), F(8)))
        else:
            want = ((F(4), F(0)), (F(4), F(n * 16)))
        cls = 'broken' if case['dashed'] else 'solid'
        if len(flat) != 1 or len(lines) != 1 or seg(lines[0]) != want or lines[0][1] != (cls,):
            return 'mixed run %r is not one %s line spanning the run: got %s' % (rows, cls, [show_el(e) for e, _ in flat[:4]])
        return None
    ctx.note(key_of(rows), len(lines) >= 2, *(['outputs_with_2_lines'] if len(lines) >= 2 else []))
    v = pair_violation(lines)
    if v:
        return 'two plain lines are collinear and touch or overlap: %s and %s' % (show_el(v[0]), show_el(v[1]))
    return None


def run_shard(ctx, shard):
    if shard['kind'] == 'runs':
        ch, kind, cls = RUNS[shard['run']]
        for n in shard['lengths']:
            if ch in ':!' and n < 2:
                continue
            for ox, oy in OFFSETS:
                ctx.run_case({'kind': 'run', 'ch': ch, 'n': n, 'rk': kind, 'cls': cls, 'ox': ox, 'oy': oy, 'rows': run_rows(ch, n, kind, ox, oy)})
        ctx.sample({'run': ch, 'lengths': [shard['lengths'][0], shard['lengths'][-1]]})
        return
    rng = rng_for(ctx.seed, ID, shard['name'])
    circles = ctx.extra['circles']
    if shard['kind'] == 'bundled':
        for name, rows in gen.bundled_whole():
            ctx.run_case({'kind': 'grid', 'rows': rows})
            ctx.tag('bundled_documents')
        return
    for i in range(shard['n']):
        q = rng.random()
        if q < 0.6:
            rows = gen.random_grid(rng, gen.FULL if rng.random() < 0.5 else gen.ASCII_DRAW, wmax=16, hmax=8)
        elif q < 0.7:
            # runs of different characters meeting each other
            a, b = rng.choice(['-_', '-=', '_=', '|+', '-+']), rng.randint(2, 30)
            if a[0] in '-_':
                rows = [''.join(rng.choice(a) for _ in range(b))]
            else:
                rows = [rng.choice(a) for _ in range(b)]
        elif q < 0.8:
            a, b = rng.choice(['-~', '|:', '|!', '─┄', '│┊']), rng.randint(2, 40)
            chars = [rng.choice(a) for _ in range(b)]
            if a[1] in ':!':
                # a lone : or ! between two non-dashed neighbours is still part of the vertical stroke; keep
                # dashed characters in stretches of >= 1 next to a stroke, never the whole run a single : / !
                pass
            horizontal = a[0] in '-─'
            rows = [''.join(chars)] if horizontal else chars
            ctx.run_case({'kind': 'mixed', 'rows': rows, 'n': b, 'rk': 'h' if horizontal else 'v', 'dashed': any(c == a[1] for c in chars)})
            continue
        elif q < 0.9:
            # every character the tree under test gives a drawing meaning to (read from its tables, whatever their
            # width): runs of it alone, next to the ASCII line characters, and small grids over a few of them
            tree = ctx.extra['alphabet']
            ch = rng.choice(tree)
            n = rng.randint(2, 9)
            m = rng.randrange(5)
            if m == 0:
                rows = [ch * n]
            elif m == 1:
                rows = [ch] * n
            elif m == 2:
                rows = [''.join(rng.choice([ch, ch, '-', '_', '=']) for _ in range(n))]
            elif m == 3:
                rows = [rng.choice([ch, ch, '|', '+']) for _ in range(n)]
            else:
                few = [ch, rng.choice(tree), rng.choice(tree), '-', '|', ' ']
                rows = gen.random_grid(rng, ''.join(few), wmax=8, hmax=4)
            ctx.tag('tree_alphabet_cases')
        else:
            kind, rows = gen.diagram(rng, circles)
        ctx.run_case({'kind': 'grid', 'rows': rows})
        if i == 0:
            ctx.sample({'grid': rows})


def execute(run):
    binary = build_driver()
    info = driver_info(binary)
    alphabet = sorted(set((info.get('ascii', '') + info.get('unicode_properties', '') + info.get('unicode_fragments', '')).replace(' ', '')) - {'\n', '\t'})
    extra = {'circles': info['circles'], 'alphabet': alphabet or list(gen.FULL)}
    run.extra_cov['drawing_characters_of_the_tree'] = len(alphabet)
    shards = []
    if run.tier == 'quick':
        lengths = list(range(1, 61)) + [100, 200, 400]
        for ri in range(len(RUNS)):
            shards.append({'kind': 'runs', 'name': 'runs-%d' % ri, 'run': ri, 'lengths': lengths})
        shards += [{'kind': 'rand', 'name': 'rand-%d' % i, 'n': 1500} for i in range(16)]
        run.extra_cov['exhaustive_scopes'] = ['runs of every length 1..60 and 100, 200, 400 of 16 line characters at 3 offsets']
    else:
        for ri in range(len(RUNS)):
            for part in range(4):
                shards.append({'kind': 'runs', 'name': 'runs-%d-%d' % (ri, part), 'run': ri, 'lengths': list(range(1 + part, 401, 4))})
        shards += [{'kind': 'rand', 'name': 'rand-%d' % i, 'n': 15000} for i in range(32)]
        run.extra_cov['exhaustive_scopes'] = ['runs of every length 1..400 of 16 line characters at 3 offsets']
    shards.sort(key=lambda s: 0 if s['kind'] == 'runs' else 1)
    shards.insert(0, {'kind': 'bundled', 'name': 'bundled'})
    run.run_shards(binary, shards, extra=extra)


if __name__ == '__main__':
    sys.exit(main(sys.modules[__name__]))
