from canon import *
import sys,math
d=Drv()
arts=[];cur=None
for l in open('circles.txt').read().split('\n'):
    if l.startswith('#CIRCLE'): cur=[]; arts.append(cur)
    elif cur is not None and l.strip()!='' : cur.append(l)
print(len(arts))
bad=0
for idx,art in enumerate(arts):
    n=max(len(r) for r in art); minx=min(len(r)-len(r.lstrip()) for r in art)
    leftchars=[r[minx] for r in art if len(r)>minx and r[minx]!=' ']
    slash=any(c in '/\\' for c in leftchars)
    for ox,oy in [(0,0),(1,0),(0,1),(5,3),(60,40),(17,9)]:
        s='\n'*oy+'\n'.join(' '*ox+r for r in art)+'\n'
        (W,H),els=canon(d.conv(s)[1])
        prob=None
        if len(els)!=1 or els[0][0]!='circle': prob='elements %r'%[e[0] for e in els]
        else:
            _,cls,cx,cy,r=els[0]
            cx/=8;cy/=16;r8=r/8
            width=n-minx
            exp_r=F(width,2) if slash else F(width-1,2)
            if r8!=exp_r: prob='radius %s exp %s'%(r8,exp_r)
            # horizontal extent equals drawing extent
            L=cx-r8; R=cx+r8
            expL=ox+minx+(0 if slash else F(1,2)); expR=ox+n-(0 if slash else F(1,2))
            if (L,R)!=(expL,expR): prob=(prob or '')+' extent %s..%s exp %s..%s'%(L,R,expL,expR)
            # every char within ~1 cell of the circle (in px: x scale 8, y scale 16 -> use px metric with radius r)
            mx=0
            for y,row in enumerate(art):
                for x,ch in enumerate(row):
                    if ch!=' ':
                        px=(ox+x+0.5)*8; py=(oy+y+0.5)*16
                        dist=abs(math.hypot(px-float(cx)*8,py-float(cy)*16)-float(r)); mx=max(mx,dist)
            if mx>16: prob=(prob or '')+' far %s'%mx
        if prob:
            bad+=1; print(idx,(ox,oy),prob)
print('bad',bad)
