from d import *
import sys
d=Drv()
def box(w,h,tl='+',tr='+',bl='+',br='+',hz='-',vt='|',ox=0,oy=0,fill=None,dash_rows=(),dashch=':'):
    rows=[]
    rows.append(' '*ox+tl+hz*w+tr)
    for r in range(h):
        v=dashch if r in dash_rows else vt
        inner=' '*w
        if fill and r==h//2 and w>=len(fill)+2: inner=' '+fill+' '*(w-len(fill)-1)
        rows.append(' '*ox+v+inner+v)
    rows.append(' '*ox+bl+hz*w+br)
    return '\n'*oy+'\n'.join(rows)+'\n'
def summarize(o):
    root,els=elems(o)
    return [(t,{k:v for k,v in a.items()},tx) for t,a,tx,ing in els]
styles={'sharp':dict(tl='+',tr='+',bl='+',br='+'),
 'round1':dict(tl='.',tr='.',bl="'",br="'"),
 'round2':dict(tl=',',tr='.',bl='`',br="'"),
 'uni':dict(tl='┌',tr='┐',bl='└',br='┘',hz='─',vt='│'),
 'unir':dict(tl='╭',tr='╮',bl='╰',br='╯',hz='─',vt='│'),
}
for name,st in styles.items():
    fails=[]
    for w in [0,1,2,3,5,8,13,21,34,47,59,60]:
        for h in [0,1,2,3,5,8,13,21,29,30]:
            inp=box(w,h,ox=2,oy=1,**st)
            s,o=d.conv(inp)
            els=summarize(o)
            rects=[e for e in els if e[0]=='rect']
            ok=False
            if len(els)==1 and len(rects)==1:
                a=rects[0][1]
                ex=(2+0.5)*8; ey=(1+0.5)*16; ew=(w+1)*8; eh=(h+1)*16
                if float(a['x'])==ex and float(a['y'])==ey and float(a['width'])==ew and float(a['height'])==eh: ok=True
            if not ok: fails.append((w,h,[ (e[0]) for e in els][:6]))
    print(name,'fails',len(fails),fails[:12])
print(d.conv(box(3,1,**styles['round1']))[1])
print(d.conv(box(3,1,hz='~'))[1])
print(d.conv(box(3,3,dash_rows=(1,)))[1])
print(d.conv(box(8,3,fill='hello'))[1])
