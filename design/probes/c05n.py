from d import *
import random, sys
from fractions import Fraction as F
d=Drv(); random.seed(int(sys.argv[1])); N=int(sys.argv[2])
HZ=set("-~+.'"); VT=set("|:!+")
def mkbox(w,h,style):
    tl,tr,bl,br=style
    return [tl+'-'*w+tr]+['|'+' '*w+'|' for _ in range(h)]+[bl+'-'*w+br]
STY=[('+','+','+','+'),('.','.',"'","'"),(',','.','`',"'")]
bad=0;nrect=0;nin=0
for i in range(N):
    W=random.randint(8,16);H=random.randint(5,9)
    g=[[' ']*W for _ in range(H)]
    for b in range(random.randint(1,3)):
        w=random.randint(0,5);h=random.randint(0,3)
        rows=mkbox(w,h,random.choice(STY))
        ox=random.randint(0,W-w-2);oy=random.randint(0,H-h-2)
        for y,r in enumerate(rows):
            for x,ch in enumerate(r):
                if ch!=' ': g[oy+y][ox+x]=ch
    for m in range(random.randint(0,4)):
        x=random.randrange(W);y=random.randrange(H)
        g[y][x]=random.choice("-|+.' -|")
    grid=[''.join(r) for r in g]; nin+=1
    st,o=d.conv('\n'.join(grid)+'\n')
    if '<rect' not in o: continue
    root,els=elems(o)
    def at(x,y): return grid[y][x] if 0<=y<H and 0<=x<W else ' '
    for t,a,tx,ing in els:
        if t!='rect': continue
        nrect+=1
        x0=F(a['x'])/8-F(1,2); y0=F(a['y'])/16-F(1,2); x1=x0+F(a['width'])/8; y1=y0+F(a['height'])/16
        prob=None
        if any(v.denominator!=1 for v in (x0,y0,x1,y1)): prob='offgrid'
        else:
            x0,y0,x1,y1=map(int,(x0,y0,x1,y1))
            cs=[at(x0,y0),at(x1,y0),at(x0,y1),at(x1,y1)]
            if F(a['rx'])>0:
                if cs[0] not in '.,' or cs[1]!='.' or cs[2] not in "'`" or cs[3]!="'": prob='rcorners %r'%cs
            elif any(c!='+' for c in cs): prob='corners %r'%cs
            if any(at(x,y0) not in HZ or at(x,y1) not in HZ for x in range(x0+1,x1)): prob='hedge'
            if any(at(x0,y) not in VT or at(x1,y) not in VT for y in range(y0+1,y1)): prob='vedge'
        if prob:
            bad+=1
            if bad<=8: print('\n'.join(grid)); print(prob,a); print()
print('inputs',nin,'rects',nrect,'bad',bad)
