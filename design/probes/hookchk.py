import re,sys
from fractions import Fraction as F
def P(s): 
    m=re.fullmatch(r'\((-?[\d.]+),(-?[\d.]+)\)',s); return (F(m[1]),F(m[2]))
bad=0;n=0;kinds={}
for ln in open('endorse.log'):
    kind,src,res=ln.rstrip('\n').split('|'); n+=1
    m=re.match(r'R (\S+) (\S+) r=(.*)',res); a=P(m[1]);b=P(m[2]); r=m[3]
    rad=F(re.search(r'Some\(([\d.]+)\)',r)[1]) if 'Some' in r else F(0)
    x0,y0=a;x1,y1=b
    lines=set();arcs=[]
    for f in src.split(';'):
        t=f.split()
        if t[0]=='L': p,q=P(t[1]),P(t[2]); lines.add((min(p,q),max(p,q)))
        elif t[0]=='A': arcs.append((P(t[1]),P(t[2]),F(t[3]),t[-1]))
        else: lines.add(('other',f))
    ry=rad*2 if False else rad  # radius is in x units; y uses same numeric (cell 1x2 grid units: unit=0.25 both axes)
    if kind=='rect':
        exp={((x0,y0),(x1,y0)),((x0,y1),(x1,y1)),((x0,y0),(x0,y1)),((x1,y0),(x1,y1))}
        ok= lines==exp and not arcs
    else:
        exp={((x0+rad,y0),(x1-rad,y0)),((x0+rad,y1),(x1-rad,y1)),((x0,y0+rad),(x0,y1-rad)),((x1,y0+rad),(x1,y1-rad))}
        ok= lines==exp and len(arcs)==4
        if ok:
            ends={frozenset((p,q)) for p,q,_,_ in arcs}
            want={frozenset(((x0+rad,y0),(x0,y0+rad))),frozenset(((x1-rad,y0),(x1,y0+rad))),frozenset(((x0,y1-rad),(x0+rad,y1))),frozenset(((x1,y1-rad),(x1-rad,y1)))}
            ok= ends==want and all(a[2]==rad for a in arcs)
    kinds[kind]=kinds.get(kind,0)+1
    if not ok:
        bad+=1
        if bad<=5: print(ln)
print('events',n,kinds,'bad',bad)
