from d import *
import random, sys
from fractions import Fraction as F
d=Drv(); random.seed(int(sys.argv[1])); N=int(sys.argv[2])
ALPHA="-|+.'`,~:! "
HZ=set("-~+"); VT=set("|:!+"); 
bad=0; nrect=0; seen=set()
for i in range(N):
    w=random.randint(2,10);h=random.randint(2,6)
    dens=random.choice([0.5,0.8,1.0])
    wts=random.choice([[4,4,3,1,1,1,1,1,1,1],[6,3,3,2,2,1,1,0,0,0],[1]*10])
    grid=[''.join(random.choices(ALPHA[:10],wts)[0] if random.random()<dens else ' ' for x in range(w)) for y in range(h)]
    st,o=d.conv('\n'.join(grid)+'\n')
    root,els=elems(o)
    def at(x,y):
        return grid[y][x] if 0<=y<h and 0<=x<w else ' '
    for t,a,tx,ing in els:
        if t!='rect': continue
        nrect+=1
        x0=F(a['x'])/8-F(1,2); y0=F(a['y'])/16-F(1,2); x1=x0+F(a['width'])/8; y1=y0+F(a['height'])/16
        rx=F(a['rx'])
        prob=None
        if any(v.denominator!=1 for v in (x0,y0,x1,y1)): prob='offgrid'
        else:
            x0,y0,x1,y1=map(int,(x0,y0,x1,y1))
            corners=[at(x0,y0),at(x1,y0),at(x0,y1),at(x1,y1)]
            if rx==0:
                if any(c!='+' for c in corners): prob='corner %r'%corners
            else:
                if corners[0] not in '.,' or corners[1] not in '.' or corners[2] not in "'`" or corners[3] not in "'": prob='rcorner %r'%corners
            for x in range(x0+1,x1):
                if at(x,y0) not in HZ or at(x,y1) not in HZ: prob='hedge'
            for y in range(y0+1,y1):
                if at(x0,y) not in VT or at(x1,y) not in VT: prob='vedge'
            dashed=any(at(x,y) in '~' for x in range(x0,x1+1) for y in (y0,y1)) or any(at(x,y) in ':!' for y in range(y0,y1+1) for x in (x0,x1))
            if ('broken' in a['class'])!=dashed: prob=(prob or '')+' dashclass'
        if prob:
            bad+=1
            if bad<=10: print('\n'.join(grid)); print(prob,a); print()
print('rects',nrect,'bad',bad)
