from d import *
import random,sys,re
import xml.parsers.expat as ex
d=Drv(); random.seed(int(sys.argv[1])); N=int(sys.argv[2])
VOC={'svg':{'xmlns','width','height','class'},'style':set(),'defs':set(),'marker':{'id','viewBox','refX','refY','markerWidth','markerHeight','orient'},
 'polygon':{'points','class'},'circle':{'cx','cy','r','class'},'rect':{'x','y','width','height','class','rx'},'line':{'x1','y1','x2','y2','class'},
 'path':{'d','class'},'text':{'x','y'},'g':set()}
def parse(s):
    evs=[]
    p=ex.ParserCreate(namespace_separator=' ')
    p.StartElementHandler=lambda n,a: evs.append(('start',n,a))
    p.EndElementHandler=lambda n: evs.append(('end',n))
    p.CharacterDataHandler=lambda c: evs.append(('chars',c))
    p.CommentHandler=lambda c: evs.append(('comment',c))
    p.ProcessingInstructionHandler=lambda t,dd: evs.append(('pi',t))
    p.StartDoctypeDeclHandler=lambda *a: evs.append(('doctype',))
    p.Parse(s.encode(),True)
    return evs
def audit(svg,marker):
    try: evs=parse(svg)
    except ex.ExpatError as e: return 'illformed '+str(e)
    stack=[]
    for e in evs:
        if e[0]=='start':
            ns,_,name=e[1].rpartition(' ')
            if ns!='http://www.w3.org/2000/svg': return 'ns %r'%e[1]
            if name not in VOC: return 'element %r'%name
            for k,v in e[2].items():
                if k not in VOC[name]: return 'attr %r on %r'%(k,name)
                if marker in v and k!='class': return 'marker in attr %r'%k
                if k=='class' and not re.fullmatch(r'[A-Za-z0-9_ ]*',v) : 
                    # identifiers could be non-ascii (low byte trick) -> tokens only
                    if any(c in v for c in '<>"\'&=/'): return 'class value %r'%v
            stack.append(name)
        elif e[0]=='end': stack.pop()
        elif e[0] in ('comment','pi','doctype'): return e[0]
        elif e[0]=='chars':
            if e[1].strip() and stack[-1] not in ('text','style'): return 'chars in %r'%stack[-1]
    return None
PAY=['<script>M()</script>','</style><script>M()</script>','<a href="M">x</a>','" onload="M()','\' onclick=\'M()',']]>M','<!--M-->','<?M x?>','&M;','&lt;M','</text><M/>','</svg><M>','<![CDATA[M]]>','<M','M>','&#60;M&#62;','\x01M','￾M']
bad=0
for i in range(N):
    M='MK%d'%i
    pay=random.choice(PAY).replace('M',M)
    ch=random.choice(['plain','quoted','tag','legname','legdecl','legdecl2'])
    base="+------------------------------+\n|                              |\n+------------------------------+\n"
    if ch=='plain': s=base+pay+"\n"
    elif ch=='quoted': s=base+'"'+pay.replace('"','')+'" "'+pay.replace('"','')+'\n'
    elif ch=='tag': s="+------------------------------+\n| {"+pay+"} {a"+pay+"} |\n+------------------------------+\n"
    elif ch=='legname': s=base+"# Legend:\n"+pay+" = {fill:red}\na"+pay+" = {fill:blue}\n"
    elif ch=='legdecl': s=base+"# Legend:\na = {"+pay.replace('{','').replace('}','')+"}\n"
    else: s=base+"# Legend:\na = {fill:red}\n"+pay+"\n"
    flags=random.choice([7,7,2,0]); entry=random.choice([1,2,3])
    st,o=d.conv(s,entry=entry,flags=flags)
    r=audit(o,M)
    if r:
        bad+=1
        if bad<=8: print(ch,repr(pay),r)
print('bad',bad,'of',N)
