from canon import *
import random,sys
d=Drv(); random.seed(int(sys.argv[1])); N=int(sys.argv[2])
ALPHA=" -|+/\\.,'`()_*oO#<>^vV=~:!xXab" + "─│┌┐└┘├┤┬┴┼╭╮╯╰╱╲╳═║▲▼"
bad=0
for i in range(N):
    w=random.randint(1,16);h=random.randint(1,8); dens=random.choice([0.3,0.6,0.9])
    grid=[''.join(random.choice(ALPHA[1:]) if random.random()<dens else ' ' for x in range(w)) for y in range(h)]
    if not ''.join(grid).strip(): continue
    k=random.choice([1,2,7,50,399]); n=random.choice([0,1,3,40,199])
    s0='\n'.join(grid)+'\n'; s1='\n'*n+'\n'.join(' '*k+r for r in grid)+'\n'
    (W0,H0),e0=canon(d.conv(s0)[1]); (W1,H1),e1=canon(d.conv(s1)[1],dx=8*k,dy=16*n)
    if e0!=e1 or W1-W0!=8*k or H1-H0!=16*n:
        bad+=1
        if bad<=5:
            print('\n'.join(grid)); print(k,n)
            print([x for x in e0 if x not in e1][:3]); print([x for x in e1 if x not in e0][:3]); print()
print('bad',bad,'of',N)
