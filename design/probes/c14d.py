from canon import *
import sys
d=Drv()
def diag(ch,n,kind,off=0):
    if kind=='/': return [' '*(off+n-1-i)+ch for i in range(n)]
    return [' '*(off+i)+ch for i in range(n)]
MK={'*':'circle','o':'open_circle','O':'big_open_circle'}
def cases():
    for n in range(1,25):
        for b in '*oO':
            yield ('right-end',b,n,['-'*n+b],(n,0))
            yield ('left-end',b,n,[b+'-'*n],(0,0))
            yield ('down-end',b,n,['|']*n+[b],(0,n))
            yield ('up-end',b,n,[b]+['|']*n,(0,0))
            yield ('dr-end',b,n,diag('\\',n,'\\')+[' '*n+b],(n,n))
            yield ('dl-end',b,n,diag('/',n,'/',1)+[b],(0,n))
            yield ('ul-end',b,n,[b]+diag('\\',n,'\\',1),(0,0))
            yield ('ur-end',b,n,[' '*n+b]+diag('/',n,'/'),(n,0))
            yield ('h-mid',b,n,['-'*n+b+'-'*n],(n,0))
            yield ('v-mid',b,n,['|']*n+[b]+['|']*n,(0,n))
bad=0;tot=0
for name,b,n,rows,(bx,by) in cases():
    for ox,oy in [(0,0),(2,1)]:
        s='\n'*oy+'\n'.join(' '*ox+r for r in rows)+'\n'; tot+=1
        (W,H),els=canon(d.conv(s)[1])
        flat=[]
        for e in els: flat+= list(e[1]) if e[0]=='g' else [e]
        prob=None
        if any(e[0]=='text' for e in flat): prob='text %r'%[e for e in flat if e[0]=='text']
        cx=F((ox+bx)*8+4); cy=F((oy+by)*16+8)
        marked=[e for e in flat if e[0]=='line' and any(c.endswith('marked_'+MK[b]) for c in e[1])]
        if not marked: prob=(prob or '')+' no marker line %r'%[ (e[0],e[1]) for e in flat]
        else:
            ok=False
            for e in marked:
                for c in e[1]:
                    if c=='end_marked_'+MK[b] and (e[4],e[5])==(cx,cy): ok=True
                    if c=='start_marked_'+MK[b] and (e[2],e[3])==(cx,cy): ok=True
            if not ok: prob=(prob or '')+' marked end not at centre %r exp %r'%(marked,(cx,cy))
        if any(e[0] not in ('line',) for e in flat): prob=(prob or '')+' other elements %r'%[e[0] for e in flat]
        if prob:
            bad+=1
            if bad<=12: print(name,b,n,(ox,oy),prob)
print('bad',bad,'of',tot)
