from d import *
from fractions import Fraction as F
import re
def num(s): return F(s)
def canon_el(c, dx=F(0), dy=F(0), sc=F(1)):
    t=c.tag.replace(NS,''); a=dict(c.attrib)
    def X(v): return (F(v)-dx)/sc
    def Y(v): return (F(v)-dy)/sc
    def Lg(v): return F(v)/sc
    cls=tuple(sorted((a.get('class') or '').split()))
    if t=='line': return ('line',cls,X(a['x1']),Y(a['y1']),X(a['x2']),Y(a['y2']))
    if t=='rect': return ('rect',cls,X(a['x']),Y(a['y']),Lg(a['width']),Lg(a['height']),Lg(a.get('rx','0')))
    if t=='circle': return ('circle',cls,X(a['cx']),Y(a['cy']),Lg(a['r']))
    if t=='text': return ('text',cls,X(a['x']),Y(a['y']),c.text or '')
    if t=='polygon':
        pts=tuple((X(p.split(',')[0]),Y(p.split(',')[1])) for p in a['points'].split())
        return ('polygon',cls,pts)
    if t=='path':
        m=re.fullmatch(r'M (\S+),(\S+) A (\S+),(\S+) (\d),(\d),(\d) (\S+),(\S+)',a['d'])
        return ('path',cls,X(m[1]),Y(m[2]),Lg(m[3]),Lg(m[4]),m[5],m[6],m[7],X(m[8]),Y(m[9]))
    if t=='g': return ('g',tuple(sorted(canon_el(k,dx,dy,sc) for k in c)))
    return (t,tuple(sorted(a.items())),c.text)
def canon(svgtxt,dx=0,dy=0,sc=1,skip=('style','defs')):
    root=ET.fromstring(svgtxt)
    W=F(root.attrib['width']);H=F(root.attrib['height'])
    els=[canon_el(c,F(dx),F(dy),F(sc)) for c in root if c.tag.replace(NS,'') not in skip and not (c.tag.replace(NS,'')=='rect' and c.attrib.get('class')=='backdrop')]
    return (W,H),sorted(els,key=repr)
