from canon import *
import math,sys
d=Drv()
def center(x1,y1,r,large,sweep,x2,y2):
    dx=(x1-x2)/2; dy=(y1-y2)/2; d2=dx*dx+dy*dy
    num=max(0.0,r*r*r*r-r*r*dy*dy-r*r*dx*dx); den=r*r*dy*dy+r*r*dx*dx
    co=math.sqrt(num/den)
    if large==sweep: co=-co
    return (co*dy+(x1+x2)/2, -co*dx+(y1+y2)/2)
bad=0;tot=0
styles=[(".",".","'","'"),(",",".","`","'"),("╭","╮","╰","╯")]
for tl,tr,bl,br in styles:
    hz='─' if tl=='╭' else '-'; vt='│' if tl=='╭' else '|'
    for w in range(1,31):
        for h in range(1,16):
            rows=[tl+hz*w+tr+hz]+[vt+' '*w+vt]*h+[bl+hz*w+br]
            s='\n'.join(rows)+'\n'; tot+=1
            (W,H),els=canon(d.conv(s)[1])
            flat=[]
            for e in els: flat+= list(e[1]) if e[0]=='g' else [e]
            arcs=[e for e in flat if e[0]=='path']; lines=[e for e in flat if e[0]=='line']
            prob=None
            if len(arcs)<4 or len(arcs)+len(lines)!=len(flat): prob='elements %r'%[e[0] for e in flat]
            ends=set(); hends=set(); vends=set()
            for l in lines:
                ends.add((l[2],l[3])); ends.add((l[4],l[5]))
                if l[3]==l[5]: hends|={(l[2],l[3]),(l[4],l[5])}
                if l[2]==l[4]: vends|={(l[2],l[3]),(l[4],l[5])}
            bx0,by0,bx1,by1=F(4),F(8),F((w+1)*8+4),F((h+1)*16+8)
            for a in arcs:
                _,cls,x1,y1,rx,ry,rot,large,sweep,x2,y2=a
                if (x1,y1) not in ends or (x2,y2) not in ends: prob='arc endpoints not on line ends %r'%(a,)
                c=center(float(x1),float(y1),float(rx),int(large),int(sweep),float(x2),float(y2))
                # inner side: centre must be inside the box bbox (strictly) unless arc belongs to the stub corner
                # centre = (P.x,Q.y) form: centre shares x with one endpoint and y with the other
                e1=(x1,y1);e2=(x2,y2)
                if e1 in hends and e2 in vends: P,Q=e1,e2
                elif e2 in hends and e1 in vends: P,Q=e2,e1
                else: prob='arc not joining h and v line %r'%(a,); continue
                if abs(c[0]-float(P[0]))>1e-6 or abs(c[1]-float(Q[1]))>1e-6: prob='centre wrong side %r %r'%(a,c)
            if prob:
                bad+=1
                if bad<=10: print(tl,w,h,prob)
print('bad',bad,'of',tot)
