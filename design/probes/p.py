import subprocess, sys, re
import xml.etree.ElementTree as ET
B='/tmp/probe-target/release/svgbob_cli'
def svg(s, *args):
    r=subprocess.run([B,*args],input=s.encode(),capture_output=True)
    return r.returncode, r.stdout.decode('utf-8','replace'), r.stderr.decode('utf-8','replace')
def body(s,*args):
    rc,o,e=svg(s,*args)
    if rc!=0: return f"RC={rc} ERR={e[-300:]}"
    # strip style and defs
    o=re.sub(r'<style>.*?</style>\s*','',o,flags=re.S)
    o=re.sub(r'<defs>.*?</defs>\s*','',o,flags=re.S)
    return o
if __name__=='__main__':
    print(body(sys.stdin.read()))
