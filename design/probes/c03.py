from d import *
from fractions import Fraction as F
import itertools, random, sys
LABELS="abcdefghijklmnpqrstuwyz0123456789"
def ref(grid):
    # grid: list of strings; returns (segments set as axis intervals, texts dict cell->char)
    H=len(grid); 
    def at(x,y):
        if 0<=y<H and 0<=x<len(grid[y]): return grid[y][x]
        return ' '
    segs=[]; texts={}
    for y,row in enumerate(grid):
        for x,ch in enumerate(row):
            if ch=='-': segs.append(((F(x),F(y)+F(1,2)),(F(x+1),F(y)+F(1,2))))
            elif ch=='|':
                segs.append(((F(x)+F(1,2),F(y)),(F(x)+F(1,2),F(y+1))))
                if at(x+1,y)=='-': segs.append(((F(x)+F(1,2),F(y)+F(1,2)),(F(x+1),F(y)+F(1,2))))
                if at(x-1,y)=='-': segs.append(((F(x),F(y)+F(1,2)),(F(x)+F(1,2),F(y)+F(1,2))))
            elif ch=='+':
                n=0
                if at(x,y-1) in '|+': segs.append(((F(x)+F(1,2),F(y)),(F(x)+F(1,2),F(y)+F(1,2)))); n+=1
                if at(x,y+1) in '|+': segs.append(((F(x)+F(1,2),F(y)+F(1,2)),(F(x)+F(1,2),F(y+1)))); n+=1
                if at(x-1,y) in '-+': segs.append(((F(x),F(y)+F(1,2)),(F(x)+F(1,2),F(y)+F(1,2)))); n+=1
                if at(x+1,y) in '-+': segs.append(((F(x)+F(1,2),F(y)+F(1,2)),(F(x+1),F(y)+F(1,2)))); n+=1
                if n==0: texts[(x,y)]='+'
            elif ch!=' ':
                texts[(x,y)]=ch
    return norm(segs),texts
def norm(segs):
    # axis aligned segments -> dict (('h',y) or ('v',x)) -> merged intervals
    d={}
    for (a,b) in segs:
        if a[1]==b[1]: k=('h',a[1]); iv=tuple(sorted((a[0],b[0])))
        elif a[0]==b[0]: k=('v',a[0]); iv=tuple(sorted((a[1],b[1])))
        else: return ('DIAG',a,b)
        if iv[0]==iv[1]: continue
        d.setdefault(k,[]).append(iv)
    out={}
    for k,ivs in d.items():
        ivs.sort(); m=[list(ivs[0])]
        for s,e in ivs[1:]:
            if s<=m[-1][1]: m[-1][1]=max(m[-1][1],e)
            else: m.append([s,e])
        out[k]=tuple(tuple(i) for i in m)
    return out
def fr(v,scale): return F(v)/scale
def actual(svgtxt):
    root,els=elems(svgtxt)
    segs=[];texts={};other=[]
    for t,a,tx,ing in els:
        if t=='line':
            if a.get('class')!='solid': other.append((t,a))
            segs.append(((F(a['x1'])/8,F(a['y1'])/16),(F(a['x2'])/8,F(a['y2'])/16)))
        elif t=='rect':
            x,y,w,h=[F(a[k]) for k in ('x','y','width','height')]
            x/=8;w/=8;y/=16;h/=16
            if a.get('class')!='solid nofill' or a.get('rx')!='0': other.append((t,a))
            segs+= [((x,y),(x+w,y)),((x,y+h),(x+w,y+h)),((x,y),(x,y+h)),((x+w,y),(x+w,y+h))]
        elif t=='text':
            tx=tx or ''
            X=F(a['x']);Y=F(a['y'])
            cx=(X-2)/8; cy=(Y-12)/16
            if cx.denominator!=1 or cy.denominator!=1: other.append(('textpos',a))
            for i,ch in enumerate(tx):
                k=(int(cx)+i,int(cy))
                if k in texts: other.append(('dup',k))
                texts[k]=ch
        else: other.append((t,a))
    return norm(segs),texts,other
def check(d,grid):
    inp='\n'.join(grid)+'\n'
    st,o=d.conv(inp)
    if st!=0: return 'PANIC '+o
    rs,rt=ref(grid)
    as_,at,oth=actual(o)
    if oth: return 'OTHER %r'%(oth,)
    if rs!=as_: return 'STROKES'
    if rt!=at: return 'TEXT ref=%r act=%r'%(rt,at)
    return None
if __name__=='__main__':
    d=Drv()
    alpha=" -|+"
    bad={}
    tot=0
    for (w,h) in [(1,1),(2,1),(1,2),(2,2),(3,2),(2,3),(3,3),(4,2),(2,4)]:
        nb=0
        for cells in itertools.product(alpha,repeat=w*h):
            grid=[''.join(cells[r*w:(r+1)*w]) for r in range(h)]
            tot+=1
            r=check(d,grid)
            if r:
                nb+=1
                if nb<=4: print((w,h),grid,r)
        print((w,h),'bad',nb,'of',len(alpha)**(w*h),flush=True)
