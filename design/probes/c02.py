from d import *
import random,sys,re,unicodedata
import xml.parsers.expat as ex
d=Drv(); random.seed(int(sys.argv[1])); N=int(sys.argv[2])
ILLEGAL=re.compile('[\x00-\x08\x0b\x0c\x0e-\x1f\ufffe\uffff]')
def texts(svg):
    out=[];cur=[None]
    p=ex.ParserCreate(namespace_separator=' ')
    def st(n,a):
        if n.endswith(' text'): cur[0]=[a,'']
    def en(n):
        if n.endswith(' text'): out.append((cur[0][0],cur[0][1])); cur[0]=None
    def ch(c):
        if cur[0] is not None: cur[0][1]+=c
    p.StartElementHandler=st;p.EndElementHandler=en;p.CharacterDataHandler=ch
    p.Parse(svg.encode('utf-8','surrogatepass'),True)
    return out
def rch():
    r=random.random()
    if r<0.3: return random.choice('<>&\'"]>-!?#;')
    if r<0.5: return chr(random.randint(1,0x7f))
    if r<0.6: return random.choice('\ufffe\uffff\u0085\u2028\u200b\u0301\ufeff\U0001f600\U0010ffff')
    while True:
        c=random.randint(0x80,0x10ffff)
        if not(0xd800<=c<=0xdfff): return chr(c)
bad=0
for i in range(N):
    q=''.join(rch() for _ in range(random.randint(1,12))).replace('"','').replace('\\','').replace('\n','').replace('\r','')
    s='"'+q+'"\n'
    st,o=d.conv(s,entry=random.choice([1,2,3]),flags=random.choice([0,7]))
    try: t=texts(o)
    except ex.ExpatError as e:
        bad+=1
        if bad<=5: print('ILLFORMED',repr(q),e)
        continue
    exp=ILLEGAL.sub('',q)
    got=[x[1] for x in t]
    if got!=[exp] and not (exp=='' and got in ([],[''])):
        bad+=1
        if bad<=5: print('ROUNDTRIP',repr(q),repr(got),repr(exp))
print('bad',bad,'of',N)
