from canon import *
import random,sys
d=Drv(); random.seed(int(sys.argv[1])); N=int(sys.argv[2])
ALPHA=" -|+/\\.,'`()_*oO#<>^vV=~:!xXab" + "─│┌┐└┘├┤┬┴┼╭╮╯╰╱╲╳═║▲▼"
def rg():
    w=random.randint(1,10);h=random.randint(1,6); dens=random.choice([0.3,0.6,0.9])
    while True:
        g=[''.join(random.choice(ALPHA[1:]) if random.random()<dens else ' ' for x in range(w)) for y in range(h)]
        if ''.join(g).strip(): return g,w,h
bad=0
for i in range(N):
    (A,wa,ha),(B,wb,hb)=rg(),rg()
    gap=random.randint(1,3)
    if random.random()<0.5:
        H=max(ha,hb); rows=[(A[y] if y<ha else ' '*wa)+' '*gap+(B[y] if y<hb else '') for y in range(H)]; dx,dy=wa+gap,0
    else:
        rows=A+['']*gap+B; dx,dy=0,ha+gap
    sA='\n'.join(A)+'\n'; sB='\n'.join(B)+'\n'; sAB='\n'.join(rows)+'\n'
    (_,_),eA=canon(d.conv(sA)[1]); (_,_),eB=canon(d.conv(sB)[1],dx=-8*dx,dy=-16*dy); (_,_),eAB=canon(d.conv(sAB)[1])
    exp=sorted(eA+eB,key=repr)
    if exp!=eAB:
        bad+=1
        if bad<=5:
            print(sAB); print('missing',[x for x in exp if x not in eAB][:3]); print('extra',[x for x in eAB if x not in exp][:3]); print()
print('bad',bad,'of',N)
