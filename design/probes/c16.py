from canon import *
import random,sys
d=Drv(); random.seed(int(sys.argv[1])); N=int(sys.argv[2])
NAMES=['a','b1','red','bigc','w','k9','q7z','abc']
def box(w,h,inner):
    rows=['+'+'-'*w+'+']
    for r in range(h):
        t=inner.get(r,'')
        rows.append('|'+t+' '*(w-len(t))+'|')
    rows.append('+'+'-'*w+'+'); return rows
bad=0;cnt={'leg':0,'tag':0}
for i in range(N):
    kind=random.choice(['box','rbox','circle','nested','outside'])
    tags=random.sample(NAMES,random.randint(1,3)); tag='{'+','.join(tags)+'}'
    other=random.choice(['','hi','p q'])
    if kind in('box','rbox'):
        w=len(tag)+len(other)+4; inner={1:' '+tag+(' '+other if other else '')}
        rows=box(w,3,inner)
        if kind=='rbox': rows[0]='.'+rows[0][1:-1]+'.'; rows[-1]="'"+rows[-1][1:-1]+"'"
        expect=[('rect',set(tags))]
    elif kind=='circle':
        rows=["    _____","  ,'     `."," /         \\","(  "+(tag+'       ')[:7]+"  )"," \\         /","  `._____.'"]
        if len(tag)>7: continue
        expect=[('circle',set(tags))]; other=''
    elif kind=='nested':
        t2=random.sample(NAMES,1); tag2='{'+t2[0]+'}'
        innerb=box(len(tag)+2,1,{0:' '+tag})
        w=len(innerb[0])+4
        rows=['+'+'-'*w+'+','| '+tag2+' '*(w-len(tag2)-1)+'|']+['|  '+r+'  |' for r in innerb]+['+'+'-'*w+'+']
        expect=[('rect',set(tags)),('rect',set(t2))]; other=''
    else:
        rows=box(6,1,{})+['',' '+tag]; expect=[('rect',set())]
    ents=[(random.choice(NAMES),random.choice(['fill:red;','stroke: blue; fill: none','x:"q";\n z:w','a:b'])) for _ in range(random.randint(0,4))]
    leg=['# Legend:'+random.choice(['',' ','  '])]+[n+random.choice([' = ','=','  =  '])+'{'+c+'}' for n,c in ents]
    use_leg=random.random()<0.7
    s='\n'.join(rows)+'\n'+(('\n'.join(leg)+'\n'+random.choice(['','\n','\n\n'])) if use_leg else '')
    st,o=d.conv(s,flags=2)
    root=ET.fromstring(o); css=[c.text for c in root if c.tag==NS+'style'][0]
    (W,H),els=canon(o)
    prob=None
    if use_leg:
        cnt['leg']+=1
        want='\n'.join('.svgbob .%s{ %s }'%(n,c) for n,c in ents)
        if not css.endswith('\n'+want) : prob='css %r vs %r'%(css[-60:],want)
        (W2,H2),els2=canon(d.conv('\n'.join(rows)+'\n',flags=2)[1])
        if els2!=els: prob='legend drawn'
    shapes=[(e[0],set(e[1])-{'solid','nofill','broken','filled'}) for e in els if e[0] in('rect','circle')]
    cnt['tag']+=1
    if sorted(shapes,key=repr)!=sorted(expect,key=repr): prob='classes %r exp %r'%(shapes,expect)
    texts=[e[4] for e in els if e[0]=='text']
    if kind=='outside':
        if tag not in texts: prob='outside tag not text %r'%texts
    else:
        if any('{' in t for t in texts): prob='tag rendered %r'%texts
        if other and other not in texts and ''.join(other.split()) != ''.join(''.join(texts).split()): prob='other text lost %r'%texts
    if prob:
        bad+=1
        if bad<=6: print(s); print(prob); print()
print('bad',bad,'of',N,cnt)
