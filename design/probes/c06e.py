from canon import *
import glob,random
d=Drv()
def approx(a,b,tol=F(1,100)):
    if type(a)!=type(b): return False
    if isinstance(a,tuple): return len(a)==len(b) and all(approx(x,y,tol) for x,y in zip(a,b))
    if isinstance(a,F): return abs(a-b)<=tol
    return a==b
def strip_legend(s):
    i=s.find('# Legend:'); return s if i<0 else s[:i]
for f in sorted(glob.glob('/repo/crates/svgbob/test_data/*.bob')):
    s=strip_legend(open(f).read())
    if len(s)>30000: s='\n'.join(s.split('\n')[:150])+'\n'
    (W0,H0),e0=canon(d.conv(s)[1])
    for k,n in [(1,1),(7,3),(399,0),(0,199),(400,200)]:
        s1='\n'*n+'\n'.join((' '*k+r) if r else r for r in s.split('\n'))
        (W1,H1),e1=canon(d.conv(s1)[1],dx=8*k,dy=16*n)
        ok = len(e0)==len(e1) and (W1-W0,H1-H0)==(8*k,16*n)
        # tolerant matching
        if ok:
            un=list(e1)
            for a in e0:
                for j,b in enumerate(un):
                    if approx(a,b): un.pop(j); break
                else: ok=False; print('  unmatched',repr(a)[:150]); break
        print(f.split('/')[-1],(k,n),len(e0),'OK' if ok else 'DIFF',flush=True)
