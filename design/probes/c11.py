from canon import *
import random,sys
d=Drv(); random.seed(int(sys.argv[1])); N=int(sys.argv[2])
ALPHA=" -|+/\\.,'`()_*oO#<>^vV=~:!xXab" + "─│┌┐└┘├┤┬┴┼╭╮╯╰╱╲╳═║▲▼"
bad=0
def approx_eq(a,b):
    if type(a)!=type(b): return False
    if isinstance(a,tuple): return len(a)==len(b) and all(approx_eq(x,y) for x,y in zip(a,b))
    if isinstance(a,F): return abs(a-b)<=F(1,1000)
    return a==b
for i in range(N):
    w=random.randint(1,14);h=random.randint(1,7); dens=random.choice([0.3,0.6,0.9])
    grid=[''.join(random.choice(ALPHA[1:]) if random.random()<dens else ' ' for x in range(w)) for y in range(h)]
    s='\n'.join(grid)+'\n'
    sc=random.choice([0.5,1,3,8,10,20,37.5])
    (W0,H0),e0=canon(d.conv(s,scale=1.0)[1]); (W1,H1),e1=canon(d.conv(s,scale=sc)[1],sc=F(sc))
    if not approx_eq(tuple(e0),tuple(e1)) or abs(W1-W0*F(sc))>F(1,1000) or abs(H1-H0*F(sc))>F(1,1000):
        bad+=1
        if bad<=5:
            print(s,sc); print([x for x in e0 if x not in e1][:3]); print([x for x in e1 if x not in e0][:3]); print()
print('bad',bad,'of',N)
