from d import *
import random, sys, itertools
from fractions import Fraction as F
d=Drv()
ALPHA=".'-| "
bad=0;nrect=0;tot=0
for (w,h) in [(3,3),(4,3),(3,4)]:
  for cells in itertools.product(ALPHA,repeat=w*h):
    grid=[''.join(cells[r*w:(r+1)*w]) for r in range(h)]
    tot+=1
    st,o=d.conv('\n'.join(grid)+'\n')
    if '<rect' not in o: continue
    root,els=elems(o)
    def at(x,y): return grid[y][x] if 0<=y<h and 0<=x<w else ' '
    for t,a,tx,ing in els:
        if t!='rect': continue
        nrect+=1
        x0=F(a['x'])/8-F(1,2); y0=F(a['y'])/16-F(1,2); x1=x0+F(a['width'])/8; y1=y0+F(a['height'])/16
        prob=None
        if any(v.denominator!=1 for v in (x0,y0,x1,y1)): prob='offgrid'
        else:
            x0,y0,x1,y1=map(int,(x0,y0,x1,y1))
            cs=[at(x0,y0),at(x1,y0),at(x0,y1),at(x1,y1)]
            if F(a['rx'])>0 and (cs[0]!='.' or cs[1]!='.' or cs[2]!="'" or cs[3]!="'"): prob='corners %r'%cs
            if any(at(x,y0)!='-' or at(x,y1)!='-' for x in range(x0+1,x1)): prob='hedge'
            if any(at(x0,y)!='|' or at(x1,y)!='|' for y in range(y0+1,y1)): prob='vedge'
        if prob:
            bad+=1
            if bad<=10: print('\n'.join(grid)); print(prob,a); print()
  print((w,h),'tot',tot,'rects',nrect,'bad',bad,flush=True)
