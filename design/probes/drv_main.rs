use std::io::{Read, Write};
use std::panic;
fn rd_u32(r:&mut impl Read)->Option<u32>{ let mut b=[0u8;4]; if r.read_exact(&mut b).is_err(){return None;} Some(u32::from_le_bytes(b)) }
fn rd_str(r:&mut impl Read)->String{ let n=rd_u32(r).unwrap() as usize; let mut v=vec![0u8;n]; r.read_exact(&mut v).unwrap(); String::from_utf8(v).unwrap() }
fn rd_f32(r:&mut impl Read)->f32{ let mut b=[0u8;4]; r.read_exact(&mut b).unwrap(); f32::from_le_bytes(b) }
fn main(){
    panic::set_hook(Box::new(|_|{}));
    let stdin=std::io::stdin(); let mut r=stdin.lock();
    let so=std::io::stderr(); let mut w=std::io::BufWriter::new(so.lock());
    loop{
        let Some(entry)=rd_u32(&mut r) else {break};
        let flags=rd_u32(&mut r).unwrap();
        let scale=rd_f32(&mut r); let sw=rd_f32(&mut r); let ow=rd_f32(&mut r); let oh=rd_f32(&mut r);
        let fs=rd_u32(&mut r).unwrap() as usize;
        let ff=rd_str(&mut r); let fill=rd_str(&mut r); let bg=rd_str(&mut r); let sc=rd_str(&mut r);
        let input=rd_str(&mut r);
        let st=svgbob::Settings{font_size:fs,font_family:ff,fill_color:fill,background:bg,stroke_color:sc,stroke_width:sw,scale,include_backdrop:flags&1!=0,include_styles:flags&2!=0,include_defs:flags&4!=0};
        let res=panic::catch_unwind(||{ match entry{0=>svgbob::to_svg(&input),1=>svgbob::to_svg_string_pretty(&input),2=>svgbob::to_svg_string_compressed(&input),3=>svgbob::to_svg_with_settings(&input,&st),_=>svgbob::to_svg_with_override_size(&input,&st,ow,oh)} });
        match res{ Ok(s)=>{ w.write_all(&[0]).unwrap(); w.write_all(&(s.len() as u32).to_le_bytes()).unwrap(); w.write_all(s.as_bytes()).unwrap(); }
                   Err(e)=>{ let m= if let Some(s)=e.downcast_ref::<String>(){s.clone()} else if let Some(s)=e.downcast_ref::<&str>(){s.to_string()} else {"?".into()}; w.write_all(&[1]).unwrap(); w.write_all(&(m.len() as u32).to_le_bytes()).unwrap(); w.write_all(m.as_bytes()).unwrap(); } }
        w.flush().unwrap();
    }
}
