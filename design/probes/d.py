import subprocess, struct, re
import xml.etree.ElementTree as ET
class Drv:
    def __init__(self):
        self.p=subprocess.Popen(['/tmp/probe-target/release/drv'],stdin=subprocess.PIPE,stdout=subprocess.DEVNULL,stderr=subprocess.PIPE)
    def conv(self,inp,entry=3,flags=0,scale=8.0,sw=2.0,ow=0.0,oh=0.0,fs=14,ff="monospace",fill="black",bg="white",sc="black"):
        def s(x): b=x.encode(); return struct.pack('<I',len(b))+b
        msg=struct.pack('<IIffffI',entry,flags,scale,sw,ow,oh,fs)+s(ff)+s(fill)+s(bg)+s(sc)+s(inp)
        self.p.stdin.write(msg); self.p.stdin.flush()
        st=self.p.stderr.read(1)[0]; n=struct.unpack('<I',self.p.stderr.read(4))[0]; out=b''
        while len(out)<n: out+=self.p.stderr.read(n-len(out))
        # library prints noise to stdout!! 
        return st,out.decode()
NS='{http://www.w3.org/2000/svg}'
def elems(svgtxt):
    root=ET.fromstring(svgtxt)
    out=[]
    def walk(e,ing):
        for c in e:
            t=c.tag.replace(NS,'')
            if t=='g': walk(c,True)
            else: out.append((t,dict(c.attrib),c.text,ing))
    walk(root,False)
    return root,out
