from canon import *
import random,sys,glob
d=Drv(); random.seed(int(sys.argv[1])); N=int(sys.argv[2])
ALPHA=" -|+/\\.,'`()_*oO#<>^vV=~:!xXab日\"" 
def full(svgtxt):
    root=ET.fromstring(svgtxt)
    st=[' '.join((c.text or '').split()) for c in root if c.tag==NS+'style']
    return (root.attrib, st, canon(svgtxt))
bad=0
for i in range(N):
    w=random.randint(1,12);h=random.randint(1,6); dens=random.choice([0.3,0.6,0.9])
    rows=[''.join(random.choice(ALPHA[1:]) if random.random()<dens else ' ' for x in range(w)) for y in range(h)]
    if random.random()<0.5:
        rows.append('# Legend:')
        for k in range(random.randint(0,4)):
            rows.append(random.choice(['a','b1','big_c'])+random.choice([' = ','=',' =  '])+'{'+random.choice(['fill:red;','stroke: blue; fill: none','x:y;\n z:w'])+'}')
    base='\n'.join(rows)+'\n'
    # variant
    vrows=[]
    for r in base.split('\n')[:-1]:
        vrows.append(r+''.join(random.choice(' \t') for _ in range(random.choice([0,0,1,3]))))
    nl=random.choice(['\n','\r\n'])
    var=nl.join(vrows)+nl+nl*random.randint(0,5)
    pass
    a=full(d.conv(base,flags=2)[1]); b=full(d.conv(var,flags=2)[1])
    if a!=b:
        bad+=1
        if bad<=6: print(repr(base)); print(repr(var)); print(a[1][0][-80:] if a[1] else None, '|', b[1][0][-80:] if b[1] else None); print()
print('bad',bad,'of',N)
