import sys
sys.argv=['x','1','0']
exec(open('c12.py').read().split("bad=0\nfor i in range(N)")[0])
import glob
def chk(s,label):
    (W,H),els=canon(d.conv(s)[1])
    flat=[]
    for e in els:
        if e[0]=='g': flat+=list(e[1])
        else: flat.append(e)
    n=0
    for e in flat:
        b=bbox(e)
        if b[0]<-1e-6 or b[1]<-1e-6 or b[2]>float(W)+1e-6 or b[3]>float(H)+1e-6:
            n+=1
            if n<=3: print(label,'outside %r bbox %r canvas %s %s'%(e[:2],tuple(float(x) for x in b),W,H))
    return n
for f in glob.glob('/repo/crates/svgbob/test_data/*.bob'):
    s=open(f).read()
    if '"' in s: s2=s.replace('"',"'")
    print(f, chk(s,f))
