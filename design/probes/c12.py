from canon import *
import random,sys,math,unicodedata
d=Drv(); random.seed(int(sys.argv[1])); N=int(sys.argv[2])
ALPHA=" -|+/\\.,'`()_*oO#<>^vV=~:!xXab日" + "─│┌┐└┘├┤┬┴┼╭╮╯╰╱╲╳═║▲▼◜◝◞◟"
def cw(ch): return 2 if unicodedata.east_asian_width(ch) in 'WF' else 1
def arc_bbox(x1,y1,r,large,sweep,x2,y2):
    # SVG arc implementation notes
    dx=(x1-x2)/2; dy=(y1-y2)/2
    d2=dx*dx+dy*dy
    if d2==0: return (x1,y1,x1,y1)
    rr=r
    lam=d2/(rr*rr)
    if lam>1: rr=rr*math.sqrt(lam)
    num=max(0.0,rr*rr*rr*rr-rr*rr*dy*dy-rr*rr*dx*dx); den=rr*rr*dy*dy+rr*rr*dx*dx
    co=math.sqrt(num/den); 
    if large==sweep: co=-co
    cxp=co*dy; cyp=-co*dx
    cx=cxp+(x1+x2)/2; cy=cyp+(y1+y2)/2
    a1=math.atan2(y1-cy,x1-cx); a2=math.atan2(y2-cy,x2-cx)
    da=a2-a1
    if sweep and da<0: da+=2*math.pi
    if not sweep and da>0: da-=2*math.pi
    xs=[x1,x2];ys=[y1,y2]
    for k in range(-4,5):
        ang=k*math.pi/2
        t=ang-a1
        # is ang within sweep from a1 by da
        if da>=0:
            t=t%(2*math.pi)
            if t<=da: xs.append(cx+rr*math.cos(ang)); ys.append(cy+rr*math.sin(ang))
        else:
            t=(-t)%(2*math.pi)
            if t<=-da: xs.append(cx+rr*math.cos(ang)); ys.append(cy+rr*math.sin(ang))
    return (min(xs),min(ys),max(xs),max(ys))
def bbox(el):
    t=el[0]
    if t=='line': return (min(el[2],el[4]),min(el[3],el[5]),max(el[2],el[4]),max(el[3],el[5]))
    if t=='rect': return (el[2],el[3],el[2]+el[4],el[3]+el[5])
    if t=='circle': return (el[2]-el[4],el[3]-el[4],el[2]+el[4],el[3]+el[4])
    if t=='text':
        cx=(el[2]-2)/8; cy=(el[3]-12)/16; n=sum(cw(c) for c in el[4])
        return (cx*8,cy*16,(cx+n)*8,(cy+1)*16)
    if t=='polygon': xs=[p[0] for p in el[2]]; ys=[p[1] for p in el[2]]; return (min(xs),min(ys),max(xs),max(ys))
    if t=='path': return arc_bbox(float(el[2]),float(el[3]),float(el[4]),int(el[7]),int(el[8]),float(el[9]),float(el[10]))
    raise Exception(t)
bad=0
for i in range(N):
    w=random.randint(1,14);h=random.randint(1,7); dens=random.choice([0.3,0.6,0.9])
    grid=[''.join(random.choice(ALPHA[1:]) if random.random()<dens else ' ' for x in range(w)) for y in range(h)]
    if not ''.join(grid).strip(): continue
    s='\n'.join(grid)+'\n'
    (W,H),els=canon(d.conv(s)[1])
    # expected size: first-column cell model
    lastcol=-1;lastrow=-1
    for y,row in enumerate(grid):
        c=0
        for ch in row:
            if ch!=' ': lastcol=max(lastcol,c); lastrow=max(lastrow,y)
            c+=cw(ch)
    prob=None
    if W!=8*(lastcol+2) or H!=16*(lastrow+2): prob='size %s %s exp %s %s'%(W,H,8*(lastcol+2),16*(lastrow+2))
    flat=[]
    for e in els:
        if e[0]=='g': flat+=list(e[1])
        else: flat.append(e)
    for e in flat:
        b=bbox(e)
        if b[0]<-1e-6 or b[1]<-1e-6 or b[2]>float(W)+1e-6 or b[3]>float(H)+1e-6: prob='outside %r bbox %r canvas %s %s'%(e[:2],tuple(float(x) for x in b),W,H); break
    if prob:
        bad+=1
        if bad<=8: print(s); print(prob); print()
print('bad',bad,'of',N)
