from canon import *
import random,sys
d=Drv(); random.seed(int(sys.argv[1])); N=int(sys.argv[2])
ALPHA=" -|+/\\.,'`()_*oO#<>^vV=~:!xXab日\"{}" 
def tree(s):
    def rec(e):
        kids=[rec(c) for c in e]
        txt=(e.text or '') if not kids else (e.text or '').strip()
        return (e.tag,tuple(sorted(e.attrib.items())),txt,tuple(kids))
    return rec(ET.fromstring(s))
bad=0
for i in range(N):
    w=random.randint(1,12);h=random.randint(1,6); dens=random.choice([0.3,0.6,0.9])
    rows=[''.join(random.choice(ALPHA[1:]) if random.random()<dens else ' ' for x in range(w)) for y in range(h)]
    s='\n'.join(rows)+'\n'
    if random.random()<0.3: s+='# Legend:\na = {fill:red}\n'
    prob=None
    o0=d.conv(s,entry=0)[1]; o1=d.conv(s,entry=1)[1]; o2=d.conv(s,entry=2)[1]
    o3=d.conv(s,entry=3,flags=7,ff="Iosevka Fixed, monospace")[1]
    if not(o0==o1==o3): prob='entry points differ'
    if tree(o1)!=tree(o2): prob='compressed differs'
    G=None
    for fl in range(8):
        o=d.conv(s,entry=3,flags=fl,fill=random.choice(['black','#abc','rgb(1,2,3)']),bg='pink',sc='navy',sw=random.choice([1.0,2.5]),fs=random.choice([10,14,30]),ff='Arial')[1]
        root=ET.fromstring(o)
        kinds=[c.tag.replace(NS,'') for c in root]
        if (kinds.count('style'),kinds.count('defs'))!=((fl>>1)&1,(fl>>2)&1): prob='switch elems %r %r'%(fl,kinds[:4])
        nb=sum(1 for c in root if c.tag==NS+'rect' and c.attrib.get('class')=='backdrop')
        if nb!=(fl&1): prob='backdrop %r'%fl
        g=canon(o)
        if G is None: G=g
        elif g!=G: prob='geometry changed by switches/settings'
        oo=d.conv(s,entry=4,flags=fl,ow=123.0,oh=77.5)[1]
        r2=ET.fromstring(oo)
        if (r2.attrib['width'],r2.attrib['height'])!=('123','77.5'): prob='override root %r'%(r2.attrib,)
        if canon(oo)[1]!=G[1]: prob='override changed geometry'
    if prob:
        bad+=1
        if bad<=5: print(s); print(prob); print()
print('bad',bad,'of',N)
