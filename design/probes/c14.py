from canon import *
import sys
d=Drv()
def diag(ch,n,kind):
    if kind=='/': return [' '*(n-1-i)+ch for i in range(n)]
    return [' '*i+ch for i in range(n)]
def cases():
    for n in range(1,41):
        for g in '>▶▸►': yield ('right',g,n,['-'*n+g])
        for g in '<◀◂◄': yield ('left',g,n,[g+'-'*n])
        for g in 'vV▼▾': yield ('down',g,n,['|']*n+[g])
        for g in '^▲▴': yield ('up',g,n,[g]+['|']*n)
        for g in 'vV': 
            yield ('downright',g,n,diag('\\',n,'\\')+[' '*n+g])
            yield ('downleft',g,n,[' '+r for r in diag('/',n,'/')]+[g])
        for g in '^':
            yield ('upleft',g,n,[g]+[' '+r for r in diag('\\',n,'\\')])
            yield ('upright',g,n,[' '*n+g]+diag('/',n,'/'))
def cross(p,q,r): return (q[0]-p[0])*(r[1]-p[1])-(q[1]-p[1])*(r[0]-p[0])
def dot(a,b): return a[0]*b[0]+a[1]*b[1]
bad=0;tot=0
for dirn,g,n,rows in cases():
    for ox,oy in [(0,0),(3,2)]:
        s='\n'*oy+'\n'.join(' '*ox+r for r in rows)+'\n'
        (W,H),els=canon(d.conv(s)[1]); tot+=1
        flat=[]
        for e in els: flat+= list(e[1]) if e[0]=='g' else [e]
        polys=[e for e in flat if e[0]=='polygon']; lines=[e for e in flat if e[0]=='line']
        prob=None
        if len(polys)!=1 or len(lines)!=1 or len(flat)!=2: prob='elements %r'%[e[0] for e in flat]
        else:
            P=polys[0][2]; L=lines[0]; a=(L[2],L[3]); b=(L[4],L[5])
            if 'filled' not in polys[0][1] or len(P)!=3: prob='poly %r'%(polys[0],)
            else:
                tips=[p for p in P if cross(a,b,p)==0]
                if len(tips)!=1: prob='tips %r'%tips
                else:
                    tip=tips[0]; base=[p for p in P if p!=tip]
                    # near end = endpoint closest to tip
                    da=dot((tip[0]-a[0],tip[1]-a[1]),(tip[0]-a[0],tip[1]-a[1])); db=dot((tip[0]-b[0],tip[1]-b[1]),(tip[0]-b[0],tip[1]-b[1]))
                    near,far=(a,b) if da<db else (b,a)
                    dirv=(near[0]-far[0],near[1]-far[1])
                    if dot((tip[0]-near[0],tip[1]-near[1]),dirv)<=0: prob='tip not beyond'
                    elif cross(a,b,base[0])*cross(a,b,base[1])>=0: prob='base not straddling'
                    elif any(dot((p[0]-near[0],p[1]-near[1]),dirv)>=dot((tip[0]-near[0],tip[1]-near[1]),dirv) for p in base): prob='base ahead of tip'
                    # direction expected
                    exp={'right':(1,0),'left':(-1,0),'down':(0,1),'up':(0,-1),'downright':(1,2),'downleft':(-1,2),'upleft':(-1,-2),'upright':(1,-2)}[dirn]
                    if cross((0,0),exp,dirv)!=0 or dot(exp,dirv)<=0: prob=(prob or '')+' dir %r'%(dirv,)
        if prob:
            bad+=1
            if bad<=12: print(dirn,g,n,(ox,oy),prob)
print('bad',bad,'of',tot)
