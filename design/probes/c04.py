from d import *
import random, sys, unicodedata, itertools
from fractions import Fraction as F
def cw(ch): return 2 if unicodedata.east_asian_width(ch) in 'WF' else 1
def columns(row):
    cols={}; c=0
    for ch in row:
        cols[c]=ch; c+=cw(ch)
    return cols
def check(d,rows,drawing):
    inp='\n'.join(rows)+'\n'
    st,o=d.conv(inp)
    if st: return 'PANIC'
    root,els=elems(o)
    grid=[columns(r) for r in rows]
    covered={}
    for t,a,tx,ing in els:
        if t!='text': continue
        X=F(a['x']);Y=F(a['y']); cx=(X-2)/8; cy=(Y-12)/16
        if cx.denominator!=1 or cy.denominator!=1: return 'anchor %r'%a
        cx=int(cx);cy=int(cy); c=cx
        for ch in (tx or ''):
            if not(0<=cy<len(grid)) or grid[cy].get(c)!=ch: return 'mismatch text %r at %r: col %d has %r'%(tx,(cx,cy),c,grid[cy].get(c) if 0<=cy<len(grid) else None)
            if (c,cy) in covered: return 'dup %r'%((c,cy),)
            covered[(c,cy)]=ch
            c+=cw(ch)
    for y,g in enumerate(grid):
        for c,ch in g.items():
            if ch!=' ' and ch not in drawing and (c,y) not in covered: return 'uncovered %r at %r'%(ch,(c,y))
    return None
if __name__=='__main__':
    d=Drv()
    LAB="abzé日Жk"
    DRAW="-|+/.'"
    # exhaustive short rows
    bad=0;tot=0;shown=0
    for n in range(1,6):
        for cells in itertools.product(" aé日-",repeat=n):
            for second in ["", "x"*8]:
                rows=[''.join(cells)]+([second] if second else [])
                tot+=1
                r=check(d,rows,set(DRAW))
                if r:
                    bad+=1
                    if shown<10: shown+=1; print(rows,r)
    print('exh bad',bad,'of',tot)
    random.seed(1); bad=0;shown=0
    for i in range(20000):
        w=random.randint(1,12);h=random.randint(1,5)
        rows=[''.join(random.choice(LAB) if random.random()<0.5 else (random.choice(DRAW) if random.random()<0.3 else ' ') for _ in range(w)) for _ in range(h)]
        r=check(d,rows,set(DRAW))
        if r:
            bad+=1
            if shown<10: shown+=1; print(rows,r)
    print('rand bad',bad)
