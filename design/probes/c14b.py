from canon import *
from c12 import arc_bbox
