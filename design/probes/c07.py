from d import *
import random,sys,hashlib
random.seed(11)
ALPHA=" -|+/\\.,'`()_*oO#<>^vV=~:!xXab日\"{}" + "─│┌┐└┘├┤┬┴┼╭╮╯╰╱╲╳═║▲▼"
corpus=[]
for i in range(400):
    w=random.randint(1,16);h=random.randint(1,8); dens=random.choice([0.3,0.6,0.9])
    corpus.append('\n'.join(''.join(random.choice(ALPHA[1:]) if random.random()<dens else ' ' for x in range(w)) for y in range(h))+'\n')
import glob
for f in glob.glob('/repo/crates/svgbob/test_data/*.bob'): corpus.append(open(f).read())
ref=None
for p in range(8):
    d=Drv(); order=list(range(len(corpus))); random.Random(p).shuffle(order)
    dig={}
    for rep in range(2):
        for i in order:
            h=hashlib.sha256(d.conv(corpus[i],entry=0)[1].encode()).hexdigest()
            if i in dig and dig[i]!=h: print('intra-process diff',i)
            dig[i]=h
    if ref is None: ref=dig
    else:
        diff=[i for i in dig if dig[i]!=ref[i]]
        if diff: print('process',p,'diff',diff[:5])
    d.p.stdin.close(); d.p.wait()
print('done',len(corpus))
