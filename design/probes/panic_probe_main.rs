use std::panic;
use std::collections::BTreeMap;
use std::sync::{Arc, Mutex};
struct Rng(u64);
impl Rng { fn next(&mut self)->u64{ self.0^=self.0<<13; self.0^=self.0>>7; self.0^=self.0<<17; self.0 } fn below(&mut self,n:usize)->usize{ (self.next()%(n as u64)) as usize } }
fn main(){
    let args:Vec<String>=std::env::args().collect();
    let n:usize=args.get(1).map(|s|s.parse().unwrap()).unwrap_or(1000);
    let seed:u64=args.get(2).map(|s|s.parse().unwrap()).unwrap_or(1);
    let alpha:Vec<char>=args.get(3).map(|s|s.chars().collect()).unwrap_or_else(|| " -|+/\\.,'`()_*oO#<>^vV=~:!\"{}xé一\t".chars().collect());
    let w:usize=args.get(4).map(|s|s.parse().unwrap()).unwrap_or(12);
    let h:usize=args.get(5).map(|s|s.parse().unwrap()).unwrap_or(6);
    let locs:Arc<Mutex<BTreeMap<String,(usize,String)>>>=Arc::new(Mutex::new(BTreeMap::new()));
    let cur:Arc<Mutex<String>>=Arc::new(Mutex::new(String::new()));
    {let locs=locs.clone(); let cur=cur.clone();
    panic::set_hook(Box::new(move |info|{
        let l=info.location().map(|l|format!("{}:{}",l.file(),l.line())).unwrap_or_default();
        let msg=format!("{}", info);
        let mut m=locs.lock().unwrap();
        let e=m.entry(l).or_insert((0,String::new()));
        e.0+=1; if e.1.is_empty(){ e.1=format!("{}\nINPUT:\n{}",msg,cur.lock().unwrap()); }
    }));}
    let mut rng=Rng(seed.wrapping_mul(0x9E3779B97F4A7C15)|1);
    let mut maxt=0u128;
    for _ in 0..n{
        let ww=1+rng.below(w); let hh=1+rng.below(h);
        let dens=1+rng.below(9);
        let mut s=String::new();
        for _ in 0..hh{ for _ in 0..ww{ if rng.below(10)<dens { s.push(alpha[rng.below(alpha.len())]); } else {s.push(' ');} } s.push('\n'); }
        *cur.lock().unwrap()=s.clone();
        let t=std::time::Instant::now();
        let _=panic::catch_unwind(||{ svgbob::to_svg(&s) });
        let e=t.elapsed().as_millis(); if e>maxt{maxt=e;}
    }
    let m=locs.lock().unwrap();
    println!("max ms {}", maxt);
    for (k,v) in m.iter(){ println!("== {} x{}\n{}", k, v.0, v.1); }
}
