from d import *
import random,sys,subprocess,os,tempfile,shutil
d=Drv(); random.seed(int(sys.argv[1])); N=int(sys.argv[2])
CLI='/tmp/probe-target/scratch/debug/svgbob_cli'
ALPHA=" -|+/\\.,'`()_*oO#<>^vV=~:!xXab日\"{}"
tmp=tempfile.mkdtemp()
bad=0
def fmt(x): return repr(x) if isinstance(x,float) else str(x)
for i in range(N):
    w=random.randint(1,12);h=random.randint(1,5)
    rows=[''.join(random.choice(ALPHA) for x in range(w)) for y in range(h)]
    s='\n'.join(rows)+'\n'
    st=dict(fs=14,ff="Iosevka Fixed, monospace",fill="black",bg="white",sc="black",sw=2.0,scale=8.0)
    args=[]
    if random.random()<.5: v=random.choice(['red','#fff','rgb(1, 2, 3)']); args+=['--background',v]; st['bg']=v
    if random.random()<.5: v=random.choice(['blue','#123456']); args+=['--fill-color',v]; st['fill']=v
    if random.random()<.5: v=random.choice(['Arial','Foo Bar, serif']); args+=['--font-family',v]; st['ff']=v
    if random.random()<.5: v=random.choice([8,14,33]); args+=['--font-size',str(v)]; st['fs']=v
    if random.random()<.5: v=random.choice([1.0,2.5,0.25]); args+=['--stroke-width',str(v)]; st['sw']=v
    if random.random()<.5: v=random.choice(['green','#0f0']); args+=['--stroke-color',v]; st['sc']=v
    if random.random()<.5: v=random.choice([0.5,1.0,2.0,3.25]); args+=['--scale',str(v)]; st['scale']=8.0*v
    mode=random.choice(['file','stdin','inline'])
    inp=None; exp_in=s; tail=[]
    if mode=='file':
        p=os.path.join(tmp,'in%d.bob'%i); open(p,'w').write(s); args+=[p]
    elif mode=='inline':
        lit=s.replace('\n','\\n')
        if '\\\\n' in lit or s.startswith('-'): mode='stdin'; inp=s.encode()
        else: tail=['-s','--',lit]
        exp_in=s
    if mode=='stdin': inp=s.encode()
    outp=None
    if random.random()<.4: outp=os.path.join(tmp,'out%d.svg'%i); args+=['-o',outp]
    r=subprocess.run([CLI]+args+tail,input=inp,capture_output=True)
    stt,want=d.conv(exp_in,entry=3,flags=7,**st)
    prob=None
    if r.returncode!=0: prob='rc %d %s'%(r.returncode,r.stderr[-200:])
    elif outp:
        if open(outp,'rb').read()!=want.encode() or r.stdout!=b'': prob='file differs'
    elif r.stdout!=want.encode()+b'\n': prob='stdout differs'
    if prob:
        bad+=1
        if bad<=5: print(args,repr(s),prob)
shutil.rmtree(tmp)
print('bad',bad,'of',N)
