from d import *
import sys
d=Drv()
def lines(o):
    root,els=elems(o)
    return [(t,a) for t,a,tx,ing in els]
def run(ch,n,kind,ox=0,oy=0):
    if kind=='h': rows=[' '*ox+ch*n]
    elif kind=='v': rows=[' '*ox+ch for _ in range(n)]
    elif kind=='/': rows=[' '*(ox+n-1-i)+ch for i in range(n)]
    elif kind=='\\': rows=[' '*(ox+i)+ch for i in range(n)]
    return '\n'*oy+'\n'.join(rows)+'\n'
for ch,kind in [('-','h'),('~','h'),('_','h'),('=','h'),('─','h'),('|','v'),(':','v'),('!','v'),('│','v'),('/','/'),('\\','\\'),('╱','/'),('╲','\\')]:
    bad=[]
    for n in list(range(1,130))+[150,200,256,300,399,400]:
        for ox,oy in [(0,0),(3,2)]:
            st,o=d.conv(run(ch,n,kind,ox,oy))
            els=lines(o)
            exp=2 if ch=='=' else 1
            if len(els)!=exp or any(t!='line' for t,a in els): bad.append((n,ox,[t for t,a in els][:5]))
    print(repr(ch),kind,'bad',len(bad),bad[:8])
