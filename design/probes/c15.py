from canon import *
import random,sys,unicodedata
d=Drv(); random.seed(int(sys.argv[1])); N=int(sys.argv[2])
def cw(ch): return 2 if unicodedata.east_asian_width(ch) in 'WF' else 1
DRAW=" -|+/\\.,'`()_*oO#<>^vV=~:!ab"
QC="-|+/.<>&ab é日Ж*{}'"
bad=0
for i in range(N):
    h=random.randint(1,4); rows=[];blank=[];exp=[]
    for y in range(h):
        row='';brow='';col=0
        nseg=random.choice([0,1,1,2,3])
        for sgi in range(nseg+1):
            n=random.randint(0,6)
            part=''.join(random.choice(DRAW) for _ in range(n))
            row+=part;brow+=part;col+=n
            if sgi<nseg:
                q=''.join(random.choice(QC) for _ in range(random.randint(0,6)))
                wq=sum(cw(c) for c in q)
                row+='"'+q+'"'; brow+=' '*(wq+2)
                exp.append(('text',(),F(col*8+2),F(y*16+12),q))
                col+=wq+2
        rows.append(row);blank.append(brow)
    s='\n'.join(rows)+'\n'; sb='\n'.join(blank)+'\n'
    (W,H),e=canon(d.conv(s)[1]); (Wb,Hb),eb=canon(d.conv(sb)[1])
    want=sorted(eb+[x for x in exp],key=repr)
    # empty quoted "" -> text with empty content? accept either
    if e!=want:
        want2=sorted(eb+[x for x in exp if x[4]!=''],key=repr)
        if e!=want2:
            bad+=1
            if bad<=6: print(s); print('missing',[x for x in want if x not in e][:3]); print('extra',[x for x in e if x not in want][:3]); print()
print('bad',bad,'of',N)
