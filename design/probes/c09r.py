from d import *
import random, sys
from fractions import Fraction as F
d=Drv(); random.seed(int(sys.argv[1])); N=int(sys.argv[2])
ALPHA=" -|+/\\.,'`()_*oO#<>^vV=~:!xX" + "─│┌┐└┘├┤┬┴┼╭╮╯╰╱╲╳═║"
def viol(els):
    L=[]
    for t,a,tx,ing in els:
        if t=='line' and a.get('class') in ('solid','broken'):
            L.append(((F(a['x1']),F(a['y1'])),(F(a['x2']),F(a['y2'])),a['class'],ing))
    for i in range(len(L)):
        for j in range(i+1,len(L)):
            (a,b,_,_),(c,dd,_,_)=L[i],L[j]
            def cross(p,q,r): return (q[0]-p[0])*(r[1]-p[1])-(q[1]-p[1])*(r[0]-p[0])
            if a==b or c==dd: continue
            if cross(a,b,c)==0 and cross(a,b,dd)==0:
                # project on dominant axis
                k=0 if a[0]!=b[0] else 1
                s1,e1=sorted((a[k],b[k])); s2,e2=sorted((c[k],dd[k]))
                if max(s1,s2)<=min(e1,e2): return (L[i],L[j])
    return None
bad=0;nl=0
for i in range(N):
    w=random.randint(1,16);h=random.randint(1,8); dens=random.choice([0.3,0.6,0.9])
    grid=[''.join(random.choice(ALPHA[1:]) if random.random()<dens else ' ' for x in range(w)) for y in range(h)]
    st,o=d.conv('\n'.join(grid)+'\n')
    root,els=elems(o)
    v=viol(els)
    if v:
        bad+=1
        if bad<=6: print('\n'.join(grid)); print([(float(p[0][0]),float(p[0][1]),float(p[1][0]),float(p[1][1]),p[2],p[3]) for p in v]); print()
print('bad',bad,'of',N)
