from c03 import *
import random
d=Drv(); random.seed(int(sys.argv[1]) if len(sys.argv)>1 else 1)
bad=0; N=int(sys.argv[2]) if len(sys.argv)>2 else 20000
for i in range(N):
    w=random.randint(1,14);h=random.randint(1,8)
    dens=random.choice([0.2,0.5,0.8,1.0]); lab=random.choice([0,0,0.1,0.3])
    grid=[]
    for y in range(h):
        row=''
        for x in range(w):
            r=random.random()
            if r<lab: row+=random.choice(LABELS)
            elif r<lab+dens*(1-lab): row+=random.choice("-|+")
            else: row+=' '
        grid.append(row)
    r=check(d,grid)
    if r:
        bad+=1
        if bad<=8: print('\n'.join(grid)); print(r); print()
print('bad',bad,'of',N)
