#!/usr/bin/env python3
"""Self test of the monitors: apply one mutant at a time to a scratch worktree of /repo, optionally run the
pinned test suite there, run the quick check of the property against the scratch copy (VERIF_REPO) and record
whether it fired. Nothing is ever changed in /repo itself.

  selftest/run.py [--tests] [--tier quick] [--scratch DIR] [--only NAME ...] [--props C05 ...] [--patch FILE --prop Cxx]
"""
import argparse
import importlib.util
import json
import os
import subprocess
import sys
import time

HERE = os.path.dirname(os.path.abspath(__file__))
VERIF = os.path.dirname(HERE)


def sh(cmd, **kw):
    return subprocess.run(cmd, shell=isinstance(cmd, str), stdout=subprocess.PIPE, stderr=subprocess.STDOUT, text=True, **kw)


def ensure_scratch(d):
    if not os.path.isdir(os.path.join(d, 'crates')):
        r = sh(['git', '-C', '/repo', 'worktree', 'add', '--detach', d, 'HEAD'])
        if r.returncode:
            sys.exit(r.stdout)
    else:
        sh(['git', '-C', d, 'checkout', '--detach', '-q', sh(['git', '-C', '/repo', 'rev-parse', 'HEAD']).stdout.strip()])
        sh(['git', '-C', d, 'checkout', '--', '.'])


def run_tests(d):
    env = dict(os.environ, CARGO_NET_OFFLINE='true', CARGO_TARGET_DIR=os.path.join(d, '.verif', 'test-target'))
    r = sh('cargo test --workspace --no-fail-fast --offline 2>&1 | grep -E "^test result|error(\\[|:)"', cwd=d, env=env)
    lines = [l for l in r.stdout.strip().split('\n') if l.startswith('test result')]
    if not lines:
        return None, r.stdout[-400:]
    passed = sum(int(l.split()[3]) for l in lines)
    failed = sum(int(l.split()[5]) for l in lines)
    return (passed, failed), ''


def run_check(d, prop, tier, seed=1):
    env = dict(os.environ, VERIF_REPO=d, VERIF_SEED=str(seed))
    t = time.time()
    r = sh([os.path.join(VERIF, 'check'), prop, '--tier', tier], env=env)
    lines = r.stdout.split('\n')
    viol = [l for l in lines if l.startswith('VIOLATION')]
    first = ''
    for i, l in enumerate(lines):
        if l.startswith('VIOLATION') and i + 1 < len(lines):
            first = lines[i + 1].strip()[:300]
            break
    return {'exit': r.returncode, 'violations': len(viol), 'first': first, 'secs': round(time.time() - t, 1),
            'tail': '' if r.returncode in (0, 1) else r.stdout[-600:]}


def main():
    ap = argparse.ArgumentParser()
    ap.add_argument('--tests', action='store_true')
    ap.add_argument('--tier', default='quick')
    ap.add_argument('--scratch', default='/tmp/verif-scratch-selftest')
    ap.add_argument('--only', nargs='*')
    ap.add_argument('--props', nargs='*')
    ap.add_argument('--patch')
    ap.add_argument('--prop')
    ap.add_argument('--also', nargs='*', default=[])
    args = ap.parse_args()
    d = args.scratch
    ensure_scratch(d)
    results_path = os.path.join(HERE, 'results.json')
    results = json.load(open(results_path)) if os.path.exists(results_path) else {}
    if args.patch:
        muts = [dict(name=os.path.basename(os.path.dirname(os.path.abspath(args.patch))) or args.patch, prop=args.prop, patch=os.path.abspath(args.patch))]
    else:
        spec = importlib.util.spec_from_file_location('mutants', os.path.join(HERE, 'mutants.py'))
        m = importlib.util.module_from_spec(spec)
        spec.loader.exec_module(m)
        muts = m.M
        if args.only:
            muts = [x for x in muts if x['name'] in args.only]
        if args.props:
            muts = [x for x in muts if x['prop'] in args.props]
    for mu in muts:
        sh(['git', '-C', d, 'checkout', '--', '.'])
        if mu.get('patch'):
            r = sh(['git', '-C', d, 'apply', mu['patch']])
            if r.returncode:
                print(mu['name'], 'PATCH DOES NOT APPLY', r.stdout[-300:])
                continue
        else:
            p = os.path.join(d, mu['file'])
            s = open(p).read()
            n = s.count(mu['old'])
            if n == 0 or (n > 1 and not mu.get('first')):
                print(mu['name'], 'SNIPPET MATCHES %d TIMES' % n)
                continue
            open(p, 'w').write(s.replace(mu['old'], mu['new'], 1))
        rec = {'prop': mu['prop'], 'note': mu.get('note', '')}
        if args.tests:
            t, err = run_tests(d)
            rec['tests'] = 'passed %d failed %d' % t if t else 'BUILD FAILED ' + err
        for prop in [mu['prop']] + list(args.also):
            res = run_check(d, prop, args.tier)
            rec[prop] = res
            status = 'FIRED' if res['exit'] == 1 else ('silent' if res['exit'] == 0 else 'INCONCLUSIVE/ERROR')
            print('%-50s %s %-8s %5.1fs tests=%s | %s %s' % (mu['name'], prop, status, res['secs'], rec.get('tests', '-'), res['first'][:140], res['tail'][-300:]), flush=True)
        # other invocations may have written in the meantime: merge, do not clobber
        results = json.load(open(results_path)) if os.path.exists(results_path) else {}
        results[mu['name']] = dict(results.get(mu['name'], {}), **rec)
        json.dump(results, open(results_path, 'w'), indent=1, sort_keys=True)
    sh(['git', '-C', d, 'checkout', '--', '.'])


if __name__ == '__main__':
    main()
