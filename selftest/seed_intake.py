#!/usr/bin/env python3
"""Intake of an independently produced breaking change: selftest/seed_intake.py Cxx [name]
 1. re-run the demonstration in the author's worktree /tmp/seed-Cxx with the change and with the change stashed,
 2. copy seed_out/{patch.diff, demo*, meta.json} to /verif/seeded/<name>/,
 3. apply the patch to a scratch worktree, run the pinned test suite, run the quick check(s) there (VERIF_REPO).
Prints what was observed and appends it to meta.json (key "intake")."""
import json
import os
import shutil
import subprocess
import sys
import time

VERIF = os.path.dirname(os.path.dirname(os.path.abspath(__file__)))


def sh(cmd, cwd=None, timeout=3600, env=None):
    r = subprocess.run(cmd, shell=True, cwd=cwd, stdout=subprocess.PIPE, stderr=subprocess.STDOUT, text=True, timeout=timeout, env=env)
    return r.returncode, r.stdout


def main():
    prop = sys.argv[1]
    name = sys.argv[2] if len(sys.argv) > 2 else prop
    also = sys.argv[3:]
    wt = '/tmp/seed-' + (name if os.path.isdir('/tmp/seed-' + name) else prop)
    if name.endswith('-2'):
        wt = '/tmp/seed2-' + prop
    if name.endswith('-3'):
        wt = '/tmp/seed3-' + prop
    if name.endswith('-4'):
        wt = '/tmp/seed4-' + prop
    if name.endswith('-5'):
        wt = "/tmp/seed5-" + prop
    if name.endswith("-6"):
        wt = "/tmp/seed6-" + prop
    if name.endswith("-7"):
        wt = "/tmp/seed7-" + prop
    scratch = os.environ.get('VERIF_SEED_SCRATCH', '/tmp/verif-scratch-seed')
    so = os.path.join(wt, 'seed_out')
    meta = json.load(open(os.path.join(so, 'meta.json')))
    demo = meta['demo_cmd']
    intake = {'at': time.strftime('%Y-%m-%d %H:%M'), 'worktree': wt}
    env = dict(os.environ, CARGO_NET_OFFLINE='true')
    # the worktree is first reset to exactly the delivered patch (git stash is shared between worktrees and
    # must not be used; the authors ran concurrently)
    patch = os.path.join(so, 'patch.diff')
    sh('git checkout -- crates Cargo.toml Cargo.lock', cwd=wt)
    rc, out = sh('git apply %s' % patch, cwd=wt)
    if rc:
        print('PATCH DOES NOT APPLY in the author worktree:', out[-300:])
        return
    rc1, out1 = sh(demo, cwd=wt, env=env)
    intake['demo_with_change'] = 'exit %d: %s' % (rc1, out1.strip().split('\n')[-1][:200])
    sh('git apply -R %s' % patch, cwd=wt)
    try:
        rc0, out0 = sh(demo, cwd=wt, env=env)
    finally:
        sh('git apply %s' % patch, cwd=wt)
    intake['demo_without_change'] = 'exit %d: %s' % (rc0, out0.strip().split('\n')[-1][:200])
    print('demo with change   :', intake['demo_with_change'])
    print('demo without change:', intake['demo_without_change'])
    dst = os.path.join(VERIF, 'seeded', name)
    os.makedirs(dst, exist_ok=True)
    for f in os.listdir(so):
        p = os.path.join(so, f)
        if os.path.isfile(p) and os.path.getsize(p) < 200000:
            shutil.copy(p, os.path.join(dst, f))
    rc, out = sh('python3 %s/selftest/run.py --tests --scratch %s --patch %s --prop %s %s' % (
        VERIF, scratch, os.path.join(dst, 'patch.diff'), prop, ('--also ' + ' '.join(also)) if also else ''))
    print(out[-1500:])
    res = json.load(open(os.path.join(VERIF, 'selftest', 'results.json'))).get(name) or {}
    intake['tests_with_change'] = res.get('tests')
    intake['checks'] = {k: {'fired': v.get('exit') == 1, 'exit': v.get('exit'), 'first_violation': v.get('first'), 'secs': v.get('secs')}
                        for k, v in res.items() if isinstance(v, dict) and 'exit' in v}
    meta['intake'] = intake
    json.dump(meta, open(os.path.join(dst, 'meta.json'), 'w'), indent=1, ensure_ascii=False)


if __name__ == '__main__':
    main()
