#!/usr/bin/env python3
"""Intake of property-preserving changes written by independent authors (see DESIGN 6.6): copy
<worktree>/benign_out/<k>.diff + its meta entry to /verif/benign/<THEME><k>/ and run checks against it in a
scratch worktree. A check that fires on such a change is stricter than its property (or the author was wrong
about the change): every firing is looked at by hand.

  selftest/benign_intake.py THEME [--props C19 ...]      (default: all 20 checks)
"""
import json
import os
import shutil
import subprocess
import sys

HERE = os.path.dirname(os.path.abspath(__file__))
VERIF = os.path.dirname(HERE)
ALL = ['C%02d' % i for i in range(1, 21)]


def main():
    theme = sys.argv[1]
    props = sys.argv[sys.argv.index('--props') + 1:] if '--props' in sys.argv else ALL
    src = '/tmp/benign-%s/benign_out' % theme
    meta = json.load(open(os.path.join(src, 'meta.json')))
    for m in meta:
        k = m['file'].split('.')[0]
        name = 'benign-%s%s' % (theme, k)
        dst = os.path.join(VERIF, 'benign', name)
        os.makedirs(dst, exist_ok=True)
        shutil.copy(os.path.join(src, m['file']), os.path.join(dst, 'patch.diff'))
        json.dump(m, open(os.path.join(dst, 'meta.json'), 'w'), indent=1, ensure_ascii=False)
        subprocess.run([sys.executable, os.path.join(HERE, 'run.py'), '--tests', '--scratch', '/tmp/verif-scratch-seed', '--patch', os.path.join(dst, 'patch.diff'),
                        '--prop', props[0], '--also'] + props[1:])
        res = json.load(open(os.path.join(HERE, 'results.json'))).get(name, {})
        m['checks'] = {p: {'fired': res[p]['exit'] == 1, 'exit': res[p]['exit'], 'first_violation': res[p]['first']} for p in props if p in res}
        m['tests_with_change'] = res.get('tests')
        json.dump(m, open(os.path.join(dst, 'meta.json'), 'w'), indent=1, ensure_ascii=False)


if __name__ == '__main__':
    main()
