#!/usr/bin/env python3
"""Regression over every kept seeded change: apply it to a scratch worktree, run the check that is supposed to
report it (the property's own check; seeded/<id>/meta.json may name another one under "expected_check") and print
one line per change. Results are merged into selftest/seeded_regression.json.

  selftest/regress_seeded.py [--scratch DIR] [NAME ...]
"""
import json
import os
import subprocess
import sys
import time

HERE = os.path.dirname(os.path.abspath(__file__))
VERIF = os.path.dirname(HERE)


def main():
    args = sys.argv[1:]
    scratch = '/tmp/verif-scratch-r5'
    if '--scratch' in args:
        i = args.index('--scratch')
        scratch = args[i + 1]
        del args[i:i + 2]
    names = args or sorted(os.listdir(os.path.join(VERIF, 'seeded')))
    out_path = os.path.join(HERE, 'seeded_regression.json')
    for name in names:
        d = os.path.join(VERIF, 'seeded', name)
        meta = json.load(open(os.path.join(d, 'meta.json')))
        prop = meta.get('expected_check') or name[:3]
        if prop == 'none':
            print('%-8s not expected to be caught (see meta.json)' % name, flush=True)
            continue
        t = time.time()
        r = subprocess.run([sys.executable, os.path.join(HERE, 'run.py'), '--scratch', scratch, '--patch', os.path.join(d, 'patch.diff'), '--prop', prop],
                           stdout=subprocess.PIPE, stderr=subprocess.STDOUT, text=True)
        line = (r.stdout.strip().split('\n') or [''])[-1]
        fired = ' FIRED ' in line
        print('%-8s %s %s %5.0fs | %s' % (name, prop, 'FIRED ' if fired else 'SILENT', time.time() - t, line.split('|', 1)[-1].strip()[:150]), flush=True)
        res = json.load(open(out_path)) if os.path.exists(out_path) else {}
        res[name] = {'check': prop, 'fired': fired, 'at': time.strftime('%Y-%m-%d %H:%M'), 'first_violation': line.split('|', 1)[-1].strip()[:300]}
        json.dump(res, open(out_path, 'w'), indent=1, sort_keys=True)


if __name__ == '__main__':
    main()
