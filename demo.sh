#!/bin/sh
# Demonstration for property C05: a closed box must be emitted as exactly one
# <rect> whose position, size, corner radius and solid/dashed class match the drawing.
# Run from the worktree root:  sh seed_out/demo.sh
# exit 0 = PASS (property holds for these inputs), exit 1 = FAIL
cd "$(dirname "$0")/.." || exit 2
cargo build -q -p svgbob_cli --offline || exit 2
BIN=target/debug/svgbob_cli
rects() { "$BIN" | grep '<rect' | grep -v backdrop | sed 's/^ *//'; }
fail=0
check() { # name expected-rect-prefix < drawing
  name=$1; expect=$2
  got=$(rects)
  n=$(printf '%s\n' "$got" | grep -c '<rect')
  if [ "$n" -eq 1 ] && printf '%s' "$got" | grep -qF "$expect"; then
    echo "ok   $name: $got"
  else
    echo "FAIL $name: expected exactly one $expect"
    echo "     got: $got"
    fail=1
  fi
}
# controls: each style on its own
printf '%s\n' '.----------.' '| optional |' "'----------'" |
  check "rounded solid" '<rect x="4" y="8" width="88" height="32" class="solid nofill" rx="4">'
printf '%s\n' '+~~~~~~~~~~+' '! optional !' '+~~~~~~~~~~+' |
  check "sharp dashed " '<rect x="4" y="8" width="88" height="32" class="broken nofill" rx="0">'
# the combination: rounded corners and dashed edges
check "rounded dashed (~ and !)" '<rect x="4" y="8" width="88" height="32" class="broken nofill" rx="4">' < seed_out/rounded_dashed.bob
printf '%s\n' '.----------.' '|          |' ':          |' ':          |' '|          |' "'----------'" |
  check "rounded, one : stretch  " '<rect x="4" y="8" width="88" height="80" class="broken nofill" rx="4">'
if [ "$fail" -eq 0 ]; then echo "PASS"; exit 0; else echo "FAIL"; exit 1; fi
